"""Translator T5: the two-pointer scans of /repo/src/traffic_weaver/sorted_array_utils.py
(Python AST) -> lean/TWV/Generated/Search.lean

Source: `sorted_array_utils.py` (working tree of /repo unless the text is handed in).  The three scans
`find_closest_lower_equal_element_indices_to_values` (-> `findLower`),
`find_closest_higher_equal_element_indices_to_values` (-> `findHigher`),
`find_closest_lower_or_higher_element_indices_to_values` (-> `findClosest`) become small-step state
machines, the dispatcher `find_closest_element_indices_to_values` (-> `find`) a chain of string tests.
The tie `TWV/Tie/Search.lean` proves the generated definitions equal to the hand-written model
`TWV.Search.findLower / findHigher / findClosest / find` for all lists, the `StopIteration` of an empty
`x` / `lookup` and the `ValueError` of an unknown strategy included.

Translation scheme
  state        one Lean structure `St K` with a field per local variable (of all translated scans):
               the integer array that is returned (`List Int`), an iterator (`Nat`: its position in the
               list it runs over), a number-or-None (`Option K`), a Python integer (`Int`).
  statements   `name = <expr>` -> `let s : St K := { s with field := ... }`; an operation that can raise
               (`next(it)`, a store, arithmetic / ordering on a possibly-`None` variable) is a bind in
               `Except Err`; a statement list is a `do` block in program order.
  loops        every `while` is its own definition `<scan>Loop<k>` (k: position of the `while` in the
               source, outer loops first) by structural recursion on a fuel argument; out of fuel is
               `Err.timeoutError` (the tie proves it is never reached: `loopFuel x lookup` =
               `len(x) + len(lookup) + 2` iterations are enough for every loop of these scans).  `break` /
               `continue` are translated in continuation-passing style (an `if` containing one of them takes
               the rest of the block into both branches).
  iterators    `next(it, None)` = `l[pos]?`, `pos + 1`; `next(it)` raises `StopIteration` at the end.
  None         `v is None` / `is not None` = `Option.isNone` / `isSome`; reading `None` as a number
               (comparison, `+`, `-`) is a `TypeError` (`val`), so a scan that can compare `None` is NOT
               equal to the hand model and the tie fails.
  store        `indices[i] = e` = `pySet` (negative index from the end, out of range `IndexError`).

Supported subset
  signature    `(x, lookup)` / `(x, lookup, fill_not_valid=<bool>)`, dispatcher `(x, lookup, strategy=<str>,
               fill_not_valid=<bool>)`: these parameter names, no `*args` / `**kwargs` / decorators.  The
               defaults are emitted as constants (`lowerFillDefault` ...) and tied as well.
  scans        top level: docstring, straight-line assignments (every local must be bound here, before the
               first compound statement and before it is read), `while`, `if`, and `return <the array>` as
               the last statement.
               `a = np.zeros(len(<list parameter>), dtype=np.int64 | int)`  (once, top level: the result);
               `it = iter(<list parameter>)`  (top level, each iterator name bound once);
               `v = next(it)`, `v = next(it, None)`, `v = None`, `v = w`, `v = <number expr>`;
               `i = <integer expr>`, `i += e`, `i -= e`, `v += e`, `v -= e`; `a[<integer expr>] = <integer expr>`;
               `while <test>: ...` (no `else`), `if <test>: ... [elif/else]`, `break`, `continue`, `pass`.
  integers     literals, integer locals, `len(<list parameter>)`, `+ - *`, unary minus,
               `a if <pure test> else b` (pure test: `fill_not_valid`, `not`, `and`, `or`, integer comparisons).
  numbers      number-or-None locals, `+`, `-` (the model's carrier has no literals and no product).
  tests        `v is None`, `v is not None`, `< <= > >=` between numbers (`a > b` is emitted as `b < a`) or
               integers, `== !=` between integers, `and`, `or`, `not`, `fill_not_valid`, `True`, `False`,
               an integer local (non-zero).  NOT: the truth value of a number-or-None (`if x_next_val:`),
               `==` on numbers, chained comparisons.
  dispatcher   `if/elif/else` over tests `strategy == '<literal>'` (`!=`, `in (<literals>)`, `and`, `or`, `not`),
               `return <scan>(x, lookup[, <pure test>])` (positional or keyword arguments),
               `raise <Exception>(...)` for the exception kinds of `TWV.Err`.
  module       `np` is bound by a single `import numpy as np`; `next`, `iter`, `len`, `int` are not rebound.
  names        Lean field names do not depend on the Python names: the array is `out`, `iter(p)` is `<p>It`,
               a variable first bound by `next(it)` is `<p>Cur`, by `next(it, None)` `<p>Next`, the integer
               every store is indexed by is `<p>Idx` for the list `p` that sizes the array and a single other
               integer `<q>Idx` for the other list; anything else keeps its (prefixed) Python name.  The naming carries no meaning: a wrong guess can only make the tie fail.
Anything else in a function: it is emitted as an alias of the hand model (without loops) and the note
says `UNSUPPORTED <function>: <reason>`; its tie theorem then holds trivially and the tie for that
function is the differential correspondence only.
"""
from __future__ import annotations

import ast
import sys
from pathlib import Path

from .core import LEAN, REPO

OUT = LEAN / "TWV" / "Generated" / "Search.lean"
SRC = REPO / "src" / "traffic_weaver" / "sorted_array_utils.py"
SRCNAME = "sorted_array_utils.py"
REQUIRED = False

LISTS = ("x", "lookup")          # the list parameters
BUILTINS = ("next", "iter", "len", "np", "numpy", "int")   # read by their usual meaning
FILL = "fill_not_valid"
STRATEGY = "strategy"


class Unsupported(Exception):
    pass


class Scan:
    def __init__(self, py, gen, prefix, has_fill):
        self.py, self.gen, self.prefix, self.has_fill = py, gen, prefix, has_fill

    @property
    def binders(self):
        return ("(fill : Bool) " if self.has_fill else "") + "(x lookup : List K)"

    @property
    def args(self):
        return ("fill " if self.has_fill else "") + "x lookup"

    @property
    def model(self):
        return f"TWV.Search.{self.gen} {self.args}"


SCANS = [
    Scan("find_closest_lower_equal_element_indices_to_values", "findLower", "lower", True),
    Scan("find_closest_higher_equal_element_indices_to_values", "findHigher", "higher", True),
    Scan("find_closest_lower_or_higher_element_indices_to_values", "findClosest", "closest", False),
]
DISPATCHER = "find_closest_element_indices_to_values"

ERRS = {"ValueError": "valueError", "IndexError": "indexError", "TypeError": "typeError",
        "AttributeError": "attributeError", "OSError": "osError", "TimeoutError": "timeoutError",
        "StopIteration": "stopIteration", "ZeroDivisionError": "zeroDivision"}

CANON_ORDER = ["out"] + [f"{p}{r}" for p in LISTS for r in ("It", "Cur", "Next", "Idx")]
# the locals of the scans as they are at the pinned commit: always fields of `St` (the tie names them)
CANON_SORT = {"out": "out", "xIt": "iter", "xCur": "val", "xNext": "val", "xIdx": "int",
              "lookupIt": "iter", "lookupCur": "val", "lookupIdx": "int"}
SORT_TYPE = {"out": "List Int", "iter": "Nat", "val": "Option K", "int": "Int"}
SORT_INIT = {"out": "[]", "iter": "0", "val": "none", "int": "0"}


def where(node):
    return f"{SRCNAME}:{getattr(node, 'lineno', '?')}"


def bad(what, node):
    return Unsupported(f"{what} at {where(node)}")


def is_docstring(st):
    return isinstance(st, ast.Expr) and isinstance(st.value, ast.Constant) and isinstance(st.value.value, str)


def is_none(e):
    return isinstance(e, ast.Constant) and e.value is None


def is_int_lit(e):
    return isinstance(e, ast.Constant) and isinstance(e.value, int) and not isinstance(e.value, bool)


def call_name(e):
    return e.func.id if isinstance(e, ast.Call) and isinstance(e.func, ast.Name) else None


def int_lit(v):
    return f"({v} : Int)" if v >= 0 else f"(-{-v} : Int)"


def ends_in_jump(stmts):
    """does control never fall off the end of the statement list?"""
    stmts = [st for st in stmts if not is_docstring(st) and not isinstance(st, ast.Pass)]
    if not stmts:
        return False
    last = stmts[-1]
    if isinstance(last, (ast.Break, ast.Continue, ast.Return, ast.Raise)):
        return True
    return isinstance(last, ast.If) and ends_in_jump(last.body) and ends_in_jump(last.orelse)


def contains_jump(stmts):
    """does the statement list contain a `break` / `continue` of the enclosing loop?"""
    for st in stmts:
        if isinstance(st, (ast.Break, ast.Continue)):
            return True
        if isinstance(st, ast.If) and (contains_jump(st.body) or contains_jump(st.orelse)):
            return True
    return False


# ---------------------------------------------------------------------------------------------
# a scan
# ---------------------------------------------------------------------------------------------

class ScanTranslator:
    def __init__(self, scan: Scan, fn: ast.FunctionDef):
        self.scan = scan
        self.fn = fn
        self.sort = {}       # python local -> out | iter | val | int
        self.iter_of = {}    # iterator local -> list parameter
        self.field = {}      # python local -> Lean field name
        self.loops = []      # [(number, While node)] in source order
        self.loop_defs = {}  # number -> text
        self.fill_default = None

    # -- signature ----------------------------------------------------------------------------------
    def check_signature(self):
        a = self.fn.args
        want = list(LISTS) + ([FILL] if self.scan.has_fill else [])
        if a.vararg or a.kwarg or a.kwonlyargs or a.posonlyargs or self.fn.decorator_list \
                or [p.arg for p in a.args] != want:
            raise bad(f"signature is not ({', '.join(want)})", self.fn)
        if self.scan.has_fill:
            if len(a.defaults) != 1 or not (isinstance(a.defaults[0], ast.Constant)
                                            and isinstance(a.defaults[0].value, bool)):
                raise bad(f"default of {FILL} is not a bool literal", self.fn)
            self.fill_default = a.defaults[0].value
        elif a.defaults:
            raise bad("unexpected default value", self.fn)

    # -- sorts --------------------------------------------------------------------------------------
    def params(self):
        return set(LISTS) | ({FILL} if self.scan.has_fill else set())

    def expr_sort(self, e):
        """'out' | 'iter' | 'val' | 'int' | 'none' (the literal None) | None (not known yet)"""
        if is_none(e):
            return "none"
        if is_int_lit(e):
            return "int"
        if isinstance(e, ast.Name):
            if e.id in self.params():
                raise bad(f"parameter `{e.id}` used as a value", e)
            return self.sort.get(e.id)
        cn = call_name(e)
        if cn == "next":
            return "val"
        if cn == "iter":
            return "iter"
        if cn == "len":
            return "int"
        if isinstance(e, ast.Call) and isinstance(e.func, ast.Attribute) and e.func.attr == "zeros":
            return "out"
        if isinstance(e, ast.UnaryOp) and isinstance(e.op, (ast.USub, ast.UAdd)):
            return self.expr_sort(e.operand)
        if isinstance(e, ast.BinOp) and isinstance(e.op, (ast.Add, ast.Sub, ast.Mult)):
            l, r = self.expr_sort(e.left), self.expr_sort(e.right)
            if l is None or r is None:
                return None
            if l == r and l in ("int", "val"):
                return l
            raise bad(f"`{ast.unparse(e)}` mixes {l} and {r}", e)
        if isinstance(e, ast.IfExp):
            l, r = self.expr_sort(e.body), self.expr_sort(e.orelse)
            if l is None or r is None:
                return None
            if l == r or "none" in (l, r):
                return r if l == "none" else l
            raise bad(f"`{ast.unparse(e)}` mixes {l} and {r}", e)
        raise bad(f"expression `{ast.unparse(e)}`", e)

    def infer_sorts(self):
        assigns = []
        for node in ast.walk(self.fn):
            if isinstance(node, ast.Assign):
                if len(node.targets) != 1:
                    raise bad("multiple assignment targets", node)
                t = node.targets[0]
                if isinstance(t, ast.Name):
                    assigns.append((t, node.value, node))
                elif not isinstance(t, ast.Subscript):
                    raise bad("assignment target", node)
            elif isinstance(node, ast.AugAssign):
                if isinstance(node.target, ast.Name):
                    assigns.append((node.target, ast.BinOp(left=ast.Name(id=node.target.id, ctx=ast.Load()),
                                                          op=node.op, right=node.value), node))
                else:
                    raise bad("augmented assignment to a subscript / attribute", node)
            elif isinstance(node, (ast.AnnAssign, ast.NamedExpr, ast.For, ast.With, ast.Try, ast.FunctionDef,
                                   ast.Lambda, ast.Global, ast.Nonlocal, ast.Delete, ast.Import, ast.ImportFrom,
                                   ast.ListComp, ast.GeneratorExp, ast.Yield, ast.Await, ast.Assert, ast.Raise)) \
                    and node is not self.fn:
                raise bad(f"{type(node).__name__}", node)
        for t, _, node in assigns:
            if t.id in self.params():
                raise bad(f"assignment to the parameter `{t.id}`", node)
            if t.id in BUILTINS:
                raise bad(f"`{t.id}` is rebound", node)
        changed = True
        while changed:
            changed = False
            for t, v, node in assigns:
                s = self.expr_sort(v)
                if s is None:
                    continue
                old = self.sort.get(t.id)
                if s == "none":
                    if old in (None,):
                        continue   # `v = None` alone does not fix the sort
                    if old != "val":
                        raise bad(f"`{t.id}` is an {old} and is assigned None", node)
                    continue
                if old is None:
                    self.sort[t.id] = s
                    changed = True
                elif old != s:
                    raise bad(f"`{t.id}` is used as {old} and as {s}", node)
        for t, v, node in assigns:
            if t.id not in self.sort:
                if is_none(v):
                    self.sort[t.id] = "val"
                else:
                    raise bad(f"cannot tell what `{t.id}` is", node)

    # -- names --------------------------------------------------------------------------------------
    def choose_names(self):
        top = [st for st in self.fn.body if isinstance(st, ast.Assign)]
        for st in top:
            t = st.targets[0]
            if isinstance(t, ast.Name) and call_name(st.value) == "iter":
                v = st.value
                if len(v.args) != 1 or v.keywords or not (isinstance(v.args[0], ast.Name) and v.args[0].id in LISTS):
                    raise bad("`iter` of something that is not a list parameter", st)
                if t.id in self.iter_of:
                    raise bad(f"iterator `{t.id}` bound twice", st)
                self.iter_of[t.id] = v.args[0].id
        cand = {}
        for name, s in self.sort.items():
            if s == "out":
                cand[name] = "out"
            elif s == "iter":
                if name not in self.iter_of:
                    raise Unsupported(f"iterator `{name}` is not bound at top level")
                cand[name] = f"{self.iter_of[name]}It"
        for st in top:                      # first binding of a number by `next`
            t = st.targets[0]
            if isinstance(t, ast.Name) and self.sort.get(t.id) == "val" and t.id not in cand \
                    and call_name(st.value) == "next":
                v = st.value
                if v.args and isinstance(v.args[0], ast.Name) and v.args[0].id in self.iter_of:
                    p = self.iter_of[v.args[0].id]
                    cand[t.id] = f"{p}Cur" if len(v.args) == 1 else f"{p}Next"
        # integers: the one every store into the array is indexed by belongs to the list that sizes the array,
        # a single other integer to the other list
        sized = [st.value.args[0].args[0].id for st in top
                 if isinstance(st.targets[0], ast.Name) and self.sort.get(st.targets[0].id) == "out"
                 and isinstance(st.value, ast.Call) and len(st.value.args) == 1 and call_name(st.value.args[0]) == "len"
                 and len(st.value.args[0].args) == 1 and isinstance(st.value.args[0].args[0], ast.Name)
                 and st.value.args[0].args[0].id in LISTS]
        subs = set()
        for node in ast.walk(self.fn):
            if isinstance(node, ast.Assign) and isinstance(node.targets[0], ast.Subscript):
                sl = node.targets[0].slice
                subs.add(sl.id if isinstance(sl, ast.Name) and self.sort.get(sl.id) == "int" else None)
        ints = sorted(n for n, srt in self.sort.items() if srt == "int")
        if len(sized) == 1 and len(subs) == 1 and None not in subs:
            idx = next(iter(subs))
            cand[idx] = f"{sized[0]}Idx"
            others = [n for n in ints if n != idx]
            rest = [p for p in LISTS if p != sized[0]]
            if len(others) == 1 and len(rest) == 1:
                cand[others[0]] = f"{rest[0]}Idx"
        counts = {}
        for c in cand.values():
            counts[c] = counts.get(c, 0) + 1
        for name, s in sorted(self.sort.items()):
            c = cand.get(name)
            if c is None or counts[c] > 1:
                if not (name.isascii() and name.isidentifier()):
                    raise Unsupported(f"variable name `{name}`")
                c = {"val": "v_", "int": "i_", "out": "a_", "iter": "it_"}[s] + name
            self.field[name] = c
        if len(set(self.field.values())) != len(self.field):
            raise Unsupported("local names clash")
        outs = [n for n, s in self.sort.items() if s == "out"]
        if len(outs) != 1:
            raise Unsupported("not exactly one result array (`np.zeros(len(...), dtype=np.int64)`)")
        self.outvar = outs[0]

    def fields(self):
        return {self.field[n]: self.sort[n] for n in self.sort}

    # -- expressions --------------------------------------------------------------------------------
    def f(self, name):
        return f"s.{self.field[name]}"

    def pure_test(self, e):
        """a Lean `Bool` term (no exceptions possible)"""
        if isinstance(e, ast.Constant) and isinstance(e.value, bool):
            return "true" if e.value else "false"
        if isinstance(e, ast.Name) and e.id == FILL and self.scan.has_fill:
            return "fill"
        if isinstance(e, ast.Name) and self.sort.get(e.id) == "int":
            return f"decide ({self.f(e.id)} ≠ 0)"
        if isinstance(e, ast.UnaryOp) and isinstance(e.op, ast.Not):
            return f"(!{self.pure_test(e.operand)})"
        if isinstance(e, ast.BoolOp):
            op = " && " if isinstance(e.op, ast.And) else " || "
            return "(" + op.join(self.pure_test(v) for v in e.values) + ")"
        if isinstance(e, ast.Compare) and len(e.ops) == 1 and self.kind(e.left) == "int" \
                and self.kind(e.comparators[0]) == "int":
            return self.int_compare(e)
        raise bad(f"test `{ast.unparse(e)}` inside an integer expression", e)

    def int_compare(self, e):
        a, b = self.int_expr(e.left), self.int_expr(e.comparators[0])
        op = e.ops[0]
        table = {ast.Lt: f"{a} < {b}", ast.LtE: f"{a} ≤ {b}", ast.Gt: f"{b} < {a}", ast.GtE: f"{b} ≤ {a}",
                 ast.Eq: f"{a} = {b}", ast.NotEq: f"{a} ≠ {b}"}
        if type(op) not in table:
            raise bad(f"comparison `{ast.unparse(e)}`", e)
        return f"decide ({table[type(op)]})"

    def kind(self, e):
        """'int' | 'val' of an expression"""
        s = self.expr_sort(e)
        if s in ("int", "val"):
            return s
        if s == "none":
            raise bad("None used as a number", e)
        raise bad(f"`{ast.unparse(e)}` is not a number", e)

    def int_expr(self, e):
        if is_int_lit(e):
            return int_lit(e.value)
        if isinstance(e, ast.Name) and self.sort.get(e.id) == "int":
            return self.f(e.id)
        if call_name(e) == "len":
            if len(e.args) == 1 and not e.keywords and isinstance(e.args[0], ast.Name) and e.args[0].id in LISTS:
                return f"({e.args[0].id}.length : Int)"
            raise bad("`len` of something that is not a list parameter", e)
        if isinstance(e, ast.UnaryOp) and isinstance(e.op, ast.USub):
            if is_int_lit(e.operand):
                return int_lit(-e.operand.value)
            return f"(-{self.int_expr(e.operand)})"
        if isinstance(e, ast.UnaryOp) and isinstance(e.op, ast.UAdd):
            return self.int_expr(e.operand)
        if isinstance(e, ast.BinOp) and isinstance(e.op, (ast.Add, ast.Sub, ast.Mult)):
            op = {ast.Add: "+", ast.Sub: "-", ast.Mult: "*"}[type(e.op)]
            return f"({self.int_expr(e.left)} {op} {self.int_expr(e.right)})"
        if isinstance(e, ast.IfExp):
            return f"(if {self.pure_test(e.test)} then {self.int_expr(e.body)} else {self.int_expr(e.orelse)})"
        raise bad(f"integer expression `{ast.unparse(e)}`", e)

    def val_expr(self, e):
        """a Lean term of type `Except Err K`"""
        if isinstance(e, ast.Name) and self.sort.get(e.id) == "val":
            return f"(val {self.f(e.id)})"
        if isinstance(e, ast.BinOp) and isinstance(e.op, (ast.Add, ast.Sub)):
            op = "addM" if isinstance(e.op, ast.Add) else "subM"
            return f"({op} {self.val_expr(e.left)} {self.val_expr(e.right)})"
        if isinstance(e, ast.UnaryOp) and isinstance(e.op, ast.UAdd):
            return self.val_expr(e.operand)
        raise bad(f"number expression `{ast.unparse(e)}`", e)

    def test(self, e):
        """a Lean term of type `Except Err Bool`"""
        if isinstance(e, ast.Compare) and len(e.ops) == 1:
            op, l, r = e.ops[0], e.left, e.comparators[0]
            if isinstance(op, (ast.Is, ast.IsNot)):
                if is_none(l) and not is_none(r):
                    l, r = r, l
                if is_none(r) and isinstance(l, ast.Name) and self.sort.get(l.id) == "val":
                    return f"({'isNoneM' if isinstance(op, ast.Is) else 'isSomeM'} {self.f(l.id)})"
                raise bad(f"identity test `{ast.unparse(e)}`", e)
            kl, kr = self.kind(l), self.kind(r)
            if kl != kr:
                raise bad(f"comparison of an {kl} with a {kr}", e)
            if kl == "int":
                return f"(boolM ({self.int_compare(e)}))"
            a, b = self.val_expr(l), self.val_expr(r)
            if isinstance(op, ast.Lt):
                return f"(ltM {a} {b})"
            if isinstance(op, ast.LtE):
                return f"(leM {a} {b})"
            if isinstance(op, ast.Gt):
                return f"(ltM {b} {a})"
            if isinstance(op, ast.GtE):
                return f"(leM {b} {a})"
            raise bad(f"comparison `{ast.unparse(e)}` on numbers", e)
        if isinstance(e, ast.Compare):
            raise bad("chained comparison", e)
        if isinstance(e, ast.UnaryOp) and isinstance(e.op, ast.Not):
            return f"(notM {self.test(e.operand)})"
        if isinstance(e, ast.BoolOp):
            op = "andM" if isinstance(e.op, ast.And) else "orM"
            out = self.test(e.values[-1])
            for v in reversed(e.values[:-1]):
                out = f"({op} {self.test(v)} {out})"
            return out
        if isinstance(e, ast.Constant) and isinstance(e.value, bool):
            return f"(boolM {'true' if e.value else 'false'})"
        if isinstance(e, ast.Name) and e.id == FILL and self.scan.has_fill:
            return "(boolM fill)"
        if isinstance(e, ast.Name) and self.sort.get(e.id) == "int":
            return f"(boolM (decide ({self.f(e.id)} ≠ 0)))"
        if isinstance(e, ast.Name) and self.sort.get(e.id) == "val":
            raise bad(f"truth value of the number-or-None `{e.id}`", e)
        raise bad(f"test `{ast.unparse(e)}`", e)

    # -- statements ---------------------------------------------------------------------------------
    def loop_name(self, k):
        return f"{self.scan.prefix}Loop{k}"

    def assign(self, name, value, node, top):
        """lines for `name = value`"""
        s = self.sort[name]
        fld = self.field[name]
        if s == "out":
            if not top:
                raise bad("the result array is created inside a loop / branch", node)
            v = value
            ok = isinstance(v, ast.Call) and isinstance(v.func, ast.Attribute) and v.func.attr == "zeros" \
                and isinstance(v.func.value, ast.Name) and v.func.value.id in ("np", "numpy") and len(v.args) == 1 \
                and call_name(v.args[0]) == "len" and len(v.args[0].args) == 1 and not v.args[0].keywords \
                and isinstance(v.args[0].args[0], ast.Name) and v.args[0].args[0].id in LISTS \
                and len(v.keywords) == 1 and v.keywords[0].arg == "dtype"
            if ok:
                d = v.keywords[0].value
                ok = (isinstance(d, ast.Attribute) and isinstance(d.value, ast.Name) and d.value.id in ("np", "numpy")
                      and d.attr in ("int64", "int_", "intp")) or (isinstance(d, ast.Name) and d.id == "int")
            if not ok:
                raise bad("the result array is not `np.zeros(len(<list>), dtype=np.int64)`", node)
            return [f"let s : St K := {{ s with {fld} := List.replicate {v.args[0].args[0].id}.length 0 }}"]
        if s == "iter":
            if not top or call_name(value) != "iter":
                raise bad("iterator assignment", node)
            return [f"let s : St K := {{ s with {fld} := 0 }}"]
        if s == "int":
            return [f"let s : St K := {{ s with {fld} := {self.int_expr(value)} }}"]
        # number-or-None
        if is_none(value):
            return [f"let s : St K := {{ s with {fld} := none }}"]
        if call_name(value) == "next":
            a = value.args
            if value.keywords or not a or not (isinstance(a[0], ast.Name) and self.sort.get(a[0].id) == "iter"):
                raise bad("`next` of something that is not an iterator", node)
            it = self.field[a[0].id]
            lst = self.iter_of[a[0].id]
            if len(a) == 1:
                return [f"let v ← next1 {lst} s.{it}",
                        f"let s : St K := {{ s with {fld} := some v, {it} := s.{it} + 1 }}"]
            if len(a) == 2 and is_none(a[1]):
                return [f"let s : St K := {{ s with {fld} := {lst}[s.{it}]?, {it} := s.{it} + 1 }}"]
            raise bad("`next` with a default other than None", node)
        if isinstance(value, ast.Name) and self.sort.get(value.id) == "val":
            return [f"let s : St K := {{ s with {fld} := {self.f(value.id)} }}"]
        return [f"let v ← {self.val_expr(value)}", f"let s : St K := {{ s with {fld} := some v }}"]

    def block(self, stmts, k_normal, k_break, k_continue, top=False):
        """lines (relative indentation) of a `do` sequence ending in a continuation"""
        lines = []
        stmts = [st for st in stmts if not is_docstring(st) and not isinstance(st, ast.Pass)]
        for i, st in enumerate(stmts):
            rest = stmts[i + 1:]
            if isinstance(st, ast.Assign) and isinstance(st.targets[0], ast.Name):
                lines += self.assign(st.targets[0].id, st.value, st, top)
            elif isinstance(st, ast.AugAssign):
                if not isinstance(st.op, (ast.Add, ast.Sub, ast.Mult)):
                    raise bad("augmented assignment operator", st)
                v = ast.BinOp(left=ast.Name(id=st.target.id, ctx=ast.Load()), op=st.op, right=st.value)
                ast.copy_location(v, st)
                ast.copy_location(v.left, st)
                lines += self.assign(st.target.id, v, st, top)
            elif isinstance(st, ast.Assign):
                t = st.targets[0]
                if not (isinstance(t.value, ast.Name) and self.sort.get(t.value.id) == "out"):
                    raise bad("store into something that is not the result array", st)
                if isinstance(t.slice, (ast.Slice, ast.Tuple)):
                    raise bad("slice store", st)
                if self.kind(t.slice) != "int" or self.kind(st.value) != "int":
                    raise bad("store of / at a non-integer", st)
                o = self.field[t.value.id]
                lines += [f"let o ← pySet s.{o} {self.int_expr(t.slice)} {self.int_expr(st.value)}",
                          f"let s : St K := {{ s with {o} := o }}"]
            elif isinstance(st, ast.While):
                if st.orelse:
                    raise bad("while ... else", st)
                k = [n for n, w in self.loops if w is st][0]
                self.emit_loop(k, st)
                lines.append(f"let s ← {self.loop_name(k)} {self.scan.args} (loopFuel x lookup) s")
            elif isinstance(st, ast.If):
                if contains_jump(st.body) or contains_jump(st.orelse):
                    a = self.block(st.body + ([] if ends_in_jump(st.body) else rest), k_normal, k_break, k_continue, top)
                    b = self.block(st.orelse + ([] if ends_in_jump(st.orelse) else rest), k_normal, k_break,
                                   k_continue, top)
                    lines.append(f"if ← {self.test(st.test)} then")
                    lines += ["  " + ln for ln in a]
                    lines.append("else")
                    lines += ["  " + ln for ln in b]
                    return lines
                a = self.block(st.body, "pure s", None, None)
                b = self.block(st.orelse, "pure s", None, None)
                lines.append("let s ← do")
                lines.append(f"  if ← {self.test(st.test)} then")
                lines += ["    " + ln for ln in a]
                lines.append("  else")
                lines += ["    " + ln for ln in b]
            elif isinstance(st, ast.Break):
                if k_break is None:
                    raise bad("break outside a loop", st)
                if rest:
                    raise bad("statement after break", rest[0])
                lines.append(k_break)
                return lines
            elif isinstance(st, ast.Continue):
                if k_continue is None:
                    raise bad("continue outside a loop", st)
                if rest:
                    raise bad("statement after continue", rest[0])
                lines.append(k_continue)
                return lines
            elif isinstance(st, ast.Return):
                if not top or rest:
                    raise bad("return that is not the last statement of the function", st)
                if not (isinstance(st.value, ast.Name) and self.sort.get(st.value.id) == "out"):
                    raise bad("return of something that is not the result array", st)
                lines.append(f"pure s.{self.field[st.value.id]}")
                return lines
            else:
                raise bad(f"statement {type(st).__name__}", st)
        if k_normal is None:
            raise Unsupported(f"{self.scan.py} can end without `return <array>`")
        lines.append(k_normal)
        return lines

    def emit_loop(self, k, node):
        name = self.loop_name(k)
        again = f"{name} {self.scan.args} n s"
        body = self.block(node.body, again, "pure s", again)
        out = [f"/-- `while {ast.unparse(node.test)}` -/",
               f"def {name} {self.scan.binders} : Nat → St K → Except Err (St K)",
               "  | 0, _ => .error .timeoutError",
               "  | n + 1, s => do",
               f"    if ← {self.test(node.test)} then"]
        out += ["      " + ln for ln in body]
        out += ["    else", "      pure s"]
        self.loop_defs[k] = "\n".join(out)

    def check_bound(self):
        """every local is bound in the straight-line prologue, before it is read"""
        bound = set()
        for st in self.fn.body:
            if is_docstring(st) or isinstance(st, ast.Pass):
                continue
            if not isinstance(st, (ast.Assign, ast.AugAssign)):
                break
            reads = {n.id for n in ast.walk(st.value) if isinstance(n, ast.Name)}
            if isinstance(st, ast.AugAssign):
                reads |= {n.id for n in ast.walk(st.target) if isinstance(n, ast.Name)}
            else:
                t = st.targets[0]
                if isinstance(t, ast.Subscript):
                    reads |= {n.id for n in ast.walk(t) if isinstance(n, ast.Name)}
            for r in sorted(reads):
                if r in self.sort and r not in bound:
                    raise bad(f"`{r}` is read before it is bound", st)
            if isinstance(st, ast.Assign) and isinstance(st.targets[0], ast.Name):
                bound.add(st.targets[0].id)
        missing = sorted(set(self.sort) - bound)
        if missing:
            raise Unsupported(f"`{missing[0]}` is not bound before the first loop / branch of {self.scan.py}")

    def prepare(self):
        self.check_signature()
        self.infer_sorts()
        self.choose_names()
        self.check_bound()
        k = 0

        # outer loops first: number the whiles of a block, then descend
        def number_block(block):
            nonlocal k
            pending = []
            for st in block:
                if isinstance(st, ast.While):
                    k += 1
                    self.loops.append((k, st))
                    pending.append(st.body)
                elif isinstance(st, ast.If):
                    pending.append(st.body)
                    pending.append(st.orelse)
            for b in pending:
                number_block(b)

        number_block(self.fn.body)

    def translate(self, rename):
        """rename: Lean field name -> final field name (after the union over the scans)"""
        self.field = {n: rename[c] for n, c in self.field.items()}
        body = self.block(self.fn.body, None, None, None, top=True)
        order = []
        # inner loops are defined before the loop that runs them

        def collect(block):
            for st in block:
                if isinstance(st, ast.While):
                    collect(st.body)
                    order.append([n for n, w in self.loops if w is st][0])
                elif isinstance(st, ast.If):
                    collect(st.body)
                    collect(st.orelse)

        collect(self.fn.body)
        out = [f"/-! ### {self.scan.py} -/", ""]
        for k in order:
            out += [self.loop_defs[k], ""]
        out.append(f"def {self.scan.gen} {self.scan.binders} : Except Err (List Int) := do")
        out.append("  let s : St K := St.init")
        out += ["  " + ln for ln in body]
        if self.scan.has_fill:
            out += ["", f"/-- the default of `{FILL}` -/",
                    f"def {self.scan.prefix}FillDefault : Bool := {'true' if self.fill_default else 'false'}"]
        return "\n".join(out)


# ---------------------------------------------------------------------------------------------
# the dispatcher
# ---------------------------------------------------------------------------------------------

class DispatchTranslator:
    def __init__(self, fn, funcs):
        self.fn = fn
        self.funcs = funcs      # python name -> Scan (as callable by bare name in the module)
        self.defaults = None

    def check_signature(self):
        a = self.fn.args
        want = list(LISTS) + [STRATEGY, FILL]
        if a.vararg or a.kwarg or a.kwonlyargs or a.posonlyargs or self.fn.decorator_list \
                or [p.arg for p in a.args] != want:
            raise bad(f"signature is not ({', '.join(want)})", self.fn)
        d = a.defaults
        if len(d) != 2 or not (isinstance(d[0], ast.Constant) and isinstance(d[0].value, str)) \
                or not (isinstance(d[1], ast.Constant) and isinstance(d[1].value, bool)):
            raise bad("defaults are not (<str literal>, <bool literal>)", self.fn)
        self.defaults = (d[0].value, d[1].value)

    @staticmethod
    def strlit(s, node):
        if not (s.isascii() and s.isprintable()) or '"' in s or "\\" in s:
            raise bad("string literal", node)
        return f'"{s}"'

    def test(self, e):
        if isinstance(e, ast.Compare) and len(e.ops) == 1:
            op, l, r = e.ops[0], e.left, e.comparators[0]
            if isinstance(l, ast.Constant) and isinstance(l.value, str) and isinstance(op, (ast.Eq, ast.NotEq)):
                l, r = r, l
            if isinstance(l, ast.Name) and l.id == STRATEGY:
                if isinstance(op, (ast.Eq, ast.NotEq)) and isinstance(r, ast.Constant) and isinstance(r.value, str):
                    return f"(strategy {'=' if isinstance(op, ast.Eq) else '≠'} {self.strlit(r.value, r)})"
                if isinstance(op, (ast.In, ast.NotIn)) and isinstance(r, (ast.Tuple, ast.List, ast.Set)) and r.elts \
                        and all(isinstance(c, ast.Constant) and isinstance(c.value, str) for c in r.elts):
                    alts = " ∨ ".join(f"strategy = {self.strlit(c.value, c)}" for c in r.elts)
                    return f"({alts})" if isinstance(op, ast.In) else f"(¬ ({alts}))"
            raise bad(f"test `{ast.unparse(e)}`", e)
        if isinstance(e, ast.UnaryOp) and isinstance(e.op, ast.Not):
            return f"(¬ {self.test(e.operand)})"
        if isinstance(e, ast.BoolOp):
            op = " ∧ " if isinstance(e.op, ast.And) else " ∨ "
            return "(" + op.join(self.test(v) for v in e.values) + ")"
        raise bad(f"test `{ast.unparse(e)}`", e)

    def fill(self, e):
        if isinstance(e, ast.Constant) and isinstance(e.value, bool):
            return "true" if e.value else "false"
        if isinstance(e, ast.Name) and e.id == FILL:
            return "fill"
        if isinstance(e, ast.UnaryOp) and isinstance(e.op, ast.Not):
            return f"(!{self.fill(e.operand)})"
        raise bad(f"argument `{ast.unparse(e)}`", e)

    def call(self, e):
        name = call_name(e)
        if name not in self.funcs:
            raise bad(f"`{ast.unparse(e)}` is not a call of one of the scans", e)
        scan = self.funcs[name]
        formal = list(LISTS) + ([FILL] if scan.has_fill else [])
        actual = {}
        if len(e.args) > len(formal) or any(isinstance(a, ast.Starred) for a in e.args):
            raise bad("arguments of the call", e)
        for p, a in zip(formal, e.args):
            actual[p] = a
        for kw in e.keywords:
            if kw.arg not in formal or kw.arg in actual:
                raise bad("keyword arguments of the call", e)
            actual[kw.arg] = kw.value
        lists = []
        for p in LISTS:
            a = actual.get(p)
            if not (isinstance(a, ast.Name) and a.id in LISTS):
                raise bad(f"argument `{p}` of the call is not a list parameter", e)
            lists.append(a.id)
        if scan.has_fill:
            fill = self.fill(actual[FILL]) if FILL in actual else f"{scan.prefix}FillDefault"
            return f"{scan.gen} {fill} {' '.join(lists)}"
        return f"{scan.gen} {' '.join(lists)}"

    def block(self, stmts, indent):
        stmts = [st for st in stmts if not is_docstring(st) and not isinstance(st, ast.Pass)]
        if not stmts:
            raise Unsupported(f"{DISPATCHER} can end without return / raise")
        st, rest = stmts[0], stmts[1:]
        pad = " " * indent
        if isinstance(st, ast.Return):
            if st.value is None:
                raise bad("bare return", st)
            if rest:
                raise bad("statement after return", rest[0])
            return [pad + self.call(st.value)]
        if isinstance(st, ast.Raise):
            exc = st.exc
            name = exc.func.id if isinstance(exc, ast.Call) and isinstance(exc.func, ast.Name) else \
                (exc.id if isinstance(exc, ast.Name) else None)
            if name not in ERRS or st.cause is not None:
                raise bad("raise", st)
            if rest:
                raise bad("statement after raise", rest[0])
            return [pad + f".error .{ERRS[name]}"]
        if isinstance(st, ast.If):
            a = self.block(st.body + ([] if ends_in_jump(st.body) else rest), indent + 2)
            b = self.block(st.orelse + ([] if ends_in_jump(st.orelse) else rest), indent + 2)
            return [pad + f"if {self.test(st.test)} then"] + a + [pad + "else"] + b
        raise bad(f"statement {type(st).__name__}", st)

    def translate(self):
        self.check_signature()
        body = self.block(self.fn.body, 2)
        out = [f"/-! ### {DISPATCHER} -/", "",
               "def find (strategy : String) (fill : Bool) (x lookup : List K) : Except Err (List Int) :="]
        out += body
        out += ["", "/-- the defaults of `strategy` and `fill_not_valid` -/",
                f"def findStrategyDefault : String := {self.strlit(self.defaults[0], self.fn)}",
                f"def findFillDefault : Bool := {'true' if self.defaults[1] else 'false'}"]
        return "\n".join(out)


# ---------------------------------------------------------------------------------------------
# driver
# ---------------------------------------------------------------------------------------------

HEADER = """import TWV.Model.Search

/-! GENERATED by harness/t5_search.py from src/traffic_weaver/sorted_array_utils.py — do not edit.

The three two-pointer scans as small-step state machines (one field of `St` per local variable, one
definition per `while` loop with a fuel argument, iterators as list positions, `None` as `Option`,
exceptions in `Except Err`) and the dispatcher.  `TWV/Tie/Search.lean` ties these to the hand-written
`TWV.Search.findLower / findHigher / findClosest / find`. -/

set_option linter.unusedVariables false

namespace TWV
namespace Generated.Search

variable {K : Type} [Add K] [Sub K] [LT K] [LE K] [DecidableLT K] [DecidableLE K]

/-! ### the Python operations (static text) -/

/-- reading a variable as a number: `None` in an ordering / arithmetic operation is a `TypeError` -/
def val : Option K → Except Err K
  | some v => .ok v
  | none => .error .typeError

/-- `next(it)` for an iterator at position `pos` of the list `l` -/
def next1 (l : List K) (pos : Nat) : Except Err K :=
  match l[pos]? with
  | some v => .ok v
  | none => .error .stopIteration

/-- `a[i] = v` on an integer array: a negative index counts from the end, out of range is an `IndexError` -/
def pySet (a : List Int) (i v : Int) : Except Err (List Int) :=
  if 0 ≤ i then
    if i.toNat < a.length then .ok (a.set i.toNat v) else .error .indexError
  else
    if (-i).toNat ≤ a.length then .ok (a.set (a.length - (-i).toNat) v) else .error .indexError

def isSomeM (o : Option K) : Except Err Bool := .ok o.isSome
def isNoneM (o : Option K) : Except Err Bool := .ok o.isNone
def boolM (b : Bool) : Except Err Bool := .ok b
def notM (a : Except Err Bool) : Except Err Bool := a >>= fun t => .ok (!t)
def andM (a b : Except Err Bool) : Except Err Bool := a >>= fun t => if t then b else .ok false
def orM (a b : Except Err Bool) : Except Err Bool := a >>= fun t => if t then .ok true else b
def ltM (a b : Except Err K) : Except Err Bool := a >>= fun u => b >>= fun v => .ok (decide (u < v))
def leM (a b : Except Err K) : Except Err Bool := a >>= fun u => b >>= fun v => .ok (decide (u ≤ v))
def addM (a b : Except Err K) : Except Err K := a >>= fun u => b >>= fun v => .ok (u + v)
def subM (a b : Except Err K) : Except Err K := a >>= fun u => b >>= fun v => .ok (u - v)

/-- iterations granted to every `while` loop (each iteration consumes an element of `x` or of `lookup`) -/
def loopFuel (x lookup : List K) : Nat := x.length + lookup.length + 2
"""


def module_functions(tree):
    """top-level functions as callable by bare name at the end of the module (a later rebinding hides them)"""
    funcs = {}
    for node in tree.body:
        if isinstance(node, ast.FunctionDef):
            funcs.setdefault(node.name, []).append(node)
        elif isinstance(node, (ast.AsyncFunctionDef, ast.ClassDef)):
            funcs.setdefault(node.name, []).append(None)
        elif isinstance(node, (ast.Assign, ast.AnnAssign, ast.AugAssign, ast.Import, ast.ImportFrom)):
            for t in ast.walk(node):
                if isinstance(t, ast.Name) and isinstance(t.ctx, ast.Store):
                    funcs.setdefault(t.id, []).append(None)
                if isinstance(t, ast.alias):
                    funcs.setdefault((t.asname or t.name).split(".")[0], []).append(None)
    return funcs


def generate(text=None):
    """text: the source of sorted_array_utils.py (default: /repo's working tree);
    returns (Lean text, notes, names of the translated functions)"""
    broken, tree = None, None
    if text is None:
        try:
            text = SRC.read_text()
        except OSError:
            broken = "source file is missing"
    if broken is None:
        try:
            tree = ast.parse(text)
        except SyntaxError as e:
            broken = f"syntax error at {SRCNAME}:{e.lineno}"
    funcs = module_functions(tree) if tree is not None else {}
    if broken is None:
        numpy_as_np = [a for n in tree.body if isinstance(n, ast.Import) for a in n.names
                       if a.name == "numpy" and a.asname == "np"]
        if len(numpy_as_np) != 1 or len(funcs.get("np", [])) != 1:
            broken = "`np` is not bound by a single `import numpy as np`"
        for b in BUILTINS:
            if b != "np" and b in funcs:
                broken = f"`{b}` is rebound at module level"
    notes, done = [], []
    reasons = {}                      # scan -> why it is not translated
    active = {}                       # scan -> its FunctionDef
    for scan in SCANS:
        defs = funcs.get(scan.py, [])
        if broken is not None:
            reasons[scan.py] = broken
        elif len(defs) != 1 or defs[0] is None:
            reasons[scan.py] = "not defined exactly once"
        else:
            active[scan.py] = defs[0]
    # the state is the union of the fields of the translated scans: translate until nothing drops out
    while True:
        fields = dict(CANON_SORT)     # always there, so that the tie compiles when nothing could be translated
        trans, texts = {}, {}
        for scan in SCANS:
            if scan.py not in active:
                continue
            try:
                t = ScanTranslator(scan, active[scan.py])
                t.prepare()
                ren = {}
                for name, sort in sorted(t.fields().items()):
                    final = name
                    while final in fields and fields[final] != sort:
                        final += "'"
                    fields[final] = sort
                    ren[name] = final
                trans[scan.py] = (t, ren)
            except Unsupported as e:
                reasons[scan.py] = str(e)
            except RecursionError:
                reasons[scan.py] = "expression too deep"
            except Exception as e:   # an AST shape nobody thought of: not translated, never a crash of the run
                reasons[scan.py] = f"translator error {type(e).__name__}: {e}"
        for py, (t, ren) in trans.items():
            try:
                texts[py] = t.translate(ren)
            except Unsupported as e:
                reasons[py] = str(e)
            except RecursionError:
                reasons[py] = "expression too deep"
            except Exception as e:
                reasons[py] = f"translator error {type(e).__name__}: {e}"
        dropped = [py for py in active if py in reasons]
        for py in dropped:
            del active[py]
        if not dropped:
            break
    notes = [f"UNSUPPORTED {scan.py}: {reasons[scan.py]}" for scan in SCANS if scan.py in reasons]
    order = [n for n in CANON_ORDER if n in fields] + sorted(n for n in fields if n not in CANON_ORDER)
    out = [HEADER]
    out.append("/-- the local variables of the scans -/")
    out.append("structure St (K : Type) where")
    for n in order:
        out.append(f"  {n} : {SORT_TYPE[fields[n]]}")
    out.append("")
    out.append("def St.init : St K :=")
    out.append("  { " + ", ".join(f"{n} := {SORT_INIT[fields[n]]}" for n in order) + " }")
    out.append("")
    for scan in SCANS:
        if scan.py in texts:
            out += [texts[scan.py], ""]
            done.append(scan.py)
        else:
            reason = reasons[scan.py]
            out += [f"/-! ### {scan.py} -/", "",
                    f"/- T5 cannot translate `{scan.py}` ({reason}); the tie falls back to the correspondence. -/",
                    f"def {scan.gen} {scan.binders} : Except Err (List Int) :=", f"  {scan.model}"]
            if scan.has_fill:
                out += ["", f"def {scan.prefix}FillDefault : Bool := true"]
            out.append("")
    # dispatcher
    reason = broken
    if reason is None:
        defs = funcs.get(DISPATCHER, [])
        if len(defs) != 1 or defs[0] is None:
            reason = "not defined exactly once"
        else:
            callable_scans = {s.py: s for s in SCANS if len(funcs.get(s.py, [])) == 1 and funcs[s.py][0] is not None}
            try:
                out += [DispatchTranslator(defs[0], callable_scans).translate(), ""]
                done.append(DISPATCHER)
            except Unsupported as e:
                reason = str(e)
            except RecursionError:
                reason = "expression too deep"
            except Exception as e:
                reason = f"translator error {type(e).__name__}: {e}"
    if reason is not None:
        notes.append(f"UNSUPPORTED {DISPATCHER}: {reason}")
        out += [f"/-! ### {DISPATCHER} -/", "",
                f"/- T5 cannot translate `{DISPATCHER}` ({reason}); the tie falls back to the correspondence. -/",
                "def find (strategy : String) (fill : Bool) (x lookup : List K) : Except Err (List Int) :=",
                "  TWV.Search.find strategy fill x lookup", "",
                'def findStrategyDefault : String := "closest"', "def findFillDefault : Bool := true", ""]
    out += ["end Generated.Search", "end TWV", ""]
    return "\n".join(out), notes, done


def regenerate(text=None, out=None):
    lean, notes, done = generate(text)
    out = Path(out) if out is not None else OUT
    out.parent.mkdir(parents=True, exist_ok=True)
    changed = (not out.exists()) or out.read_text() != lean
    if changed:
        out.write_text(lean)
    if notes:
        note = "; ".join(notes)
        if done:
            note += "; translated: " + ", ".join(done)
    else:
        note = "all three scans and the dispatcher translated (state machines, fuel len(x) + len(lookup) + 2)"
    return f"{note} ({'rewritten' if changed else 'unchanged'})"


def main(argv):
    """python -m harness.t5_search [--src FILE] [--stdout]   (FILE: a text of sorted_array_utils.py)"""
    src, to_stdout = None, False
    it = iter(argv)
    for a in it:
        if a == "--src":
            src = Path(next(it)).read_text()
        elif a == "--stdout":
            to_stdout = True
        else:
            print(main.__doc__)
            return 2
    if to_stdout:
        lean, notes, _ = generate(src)
        print(lean)
        for n in notes:
            print("--", n)
    else:
        print(regenerate(src))
    return 0


if __name__ == "__main__":
    sys.exit(main(sys.argv[1:]))
