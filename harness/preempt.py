"""The schedule dimension, made systematic: one preemption at a chosen point.

Running cases in several threads and hoping for an unlucky switch finds races only by chance.  Here the schedule
is *chosen*: computation A runs under a line tracer; when it reaches the p-th line of library code, A is held there
and a second thread runs computation B (a look-alike of A: same shapes, other numbers) from start to end; then A
goes on.  That is a legal schedule of two threads with a single preemption, and sweeping p over (a sample of) the
lines A executes puts B's complete run into every window A has.  A library that keeps per-call data in module-level
or per-object scratch space shows it deterministically: A returns something else than it does alone (B wrote into
A's scratch space), or B - run again afterwards, alone - returns something else than before (A finished its
two-step update with B's key).
"""
from __future__ import annotations

import os
import sys
import threading

from . import core

_LIB = os.path.join(str(core.REPO), "src", "traffic_weaver")


class _Helper:
    """a second thread that runs what it is handed, one job at a time"""

    def __init__(self):
        self.job = None
        self.go = threading.Event()
        self.done = threading.Event()
        self.t = threading.Thread(target=self._loop, daemon=True)
        self.t.start()

    def _loop(self):
        while True:
            self.go.wait()
            self.go.clear()
            try:
                self.job()
            except BaseException:  # noqa: B's outcome is irrelevant here
                pass
            self.done.set()

    def run(self, fn, timeout=120):
        self.job = fn
        self.done.clear()
        self.go.set()
        return self.done.wait(timeout)


_HELPERS = {}


def helper():
    """the second thread of the CALLING thread (a preempted run may itself be somebody's second thread)"""
    me = threading.get_ident()
    h = _HELPERS.get(me)
    if h is None or not h.t.is_alive():
        h = _HELPERS[me] = _Helper()
    return h


def count_lines(fn, firsts=None):
    """run fn() and count the line events of library code; returns (result-or-exception, count); `firsts`, if given,
    collects the position at which each distinct source line is executed for the first time"""
    n = [0]
    seen = set()

    def local(frame, event, arg):
        if event == "line":
            n[0] += 1
            if firsts is not None:
                k = (frame.f_code.co_filename, frame.f_lineno)
                if k not in seen:
                    seen.add(k)
                    firsts.append(n[0])
        return local

    def glob(frame, event, arg):
        if frame.f_code.co_filename.startswith(_LIB):
            return local
        return None
    old = sys.gettrace()
    sys.settrace(glob)
    try:
        try:
            r = fn()
        except Exception as e:  # noqa
            r = e
    finally:
        sys.settrace(old)
    return r, n[0]


def run_preempted(fn_a, fn_b, p):
    """run fn_a(); when it is about to execute its p-th line of library code (1-based), hold it, run fn_b() to the end
    in another thread, and let fn_a go on.  Returns (what fn_a returned, whether the preemption took place)."""
    n = [0]
    fired = [False]

    def local(frame, event, arg):
        if event == "line" and not fired[0]:
            n[0] += 1
            if n[0] == p:
                fired[0] = True
                sys.settrace(None)
                helper().run(fn_b)
                return None
        return None if fired[0] else local

    def glob(frame, event, arg):
        if fired[0]:
            return None
        if frame.f_code.co_filename.startswith(_LIB):
            return local
        return None
    old = sys.gettrace()
    sys.settrace(glob)
    try:
        r = fn_a()
    finally:
        sys.settrace(old)
    return r, fired[0]


def positions(n, k, seed, firsts=()):
    """k of the n line positions (deterministic): mostly positions at which a source line is reached for the first
    time (every window between two statements of the code is entered there), the rest spread at random"""
    if n <= k:
        return list(range(1, n + 1))
    import random
    r = random.Random(seed)
    firsts = list(firsts)
    r.shuffle(firsts)
    ps = set(firsts[: (3 * k) // 4]) | {n}
    while len(ps) < k:
        ps.add(r.randint(1, n))
    return sorted(ps)
