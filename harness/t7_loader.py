"""Translator T7: the *protocol* of the remote-dataset loader
(/repo/src/traffic_weaver/datasets/_base.py, Python AST) -> lean/TWV/Generated/LoaderProtocol.lean

Source: `_base.py` (working tree of /repo unless the text is handed in).  For the functions `load_dataset`,
`get_data_home`, `load_csv_dataset_from_resources` (if present), `_fetch_remote`, `load_csv_dataset_from_remote`
and every module-level function they call (transitively: `_sha256` on the pinned text), in source order, the
translator emits the list of *protocol events* in program order, `generated : List (String × List Event)`.
The hand-written table of the pinned text is `TWV.LoaderProtocol.expected` (`TWV/Model/LoaderProtocol.lean`,
where `Role`, `Event`, the inliner `flatten` and the predicates live); the tie `TWV/Tie/LoaderProtocol.lean`
proves `generated = expected` by `decide` and the protocol facts (a)-(g) the model `TWV/Model/Cache.lean` of
C19 relies on.  So ANY change of the sequence of file-system / network steps (pickling into the final slot,
`os.rename` inside the `with open(...)` block, staging outside a fresh `TemporaryDirectory(dir=<cache folder>)`,
checksum after parsing, the cache-hit test after the download, `warnings.catch_warnings()` around the parse, a
retry loop that swallows everything, `makedirs` without `exist_ok`) breaks the build, and a rewrite that keeps
the sequence (locals renamed, `os.path.join` for `path.join`, a log line, comments, two independent path
computations exchanged) does not.

Roles (how a path expression is built; `Role` in Lean)
  dataHome      the result of `get_data_home(...)`; inside `get_data_home` its parameter `data_home` and a value
                read from the environment (`os.environ.get`, `os.getenv`, `os.environ[...]`)
  cacheDir      join(dataHome, <parameter dataset_folder>)
  cacheEntry    join(cacheDir, <parameter dataset_filename>) = join(dataHome, dataset_folder, dataset_filename)
  cacheOther    any other path built from cacheDir / cacheEntry (join(cacheDir, x), cacheEntry + ".part", ...):
                a FIXED path in the cache folder
  tmpDir        the name bound by `with TemporaryDirectory(dir=...) as name`
  tmpArchive    join(tmpDir, remote.filename); the value of a helper call whose result is `argFile p` with
                p := tmpDir (`_fetch_remote(remote, dirname=tmp_dir)`)
  tmpPickle     join(tmpDir, <any other single component>)
  systemTmp     a tempfile API without `dir=` (`TemporaryDirectory()`, `mkdtemp()`, `NamedTemporaryFile()`,
                `mkstemp()`, `gettempdir()`, `urlretrieve(url)` without a file name), anything joined below it
  resource      `importlib.resources.files(...)` and anything joined below it
  arg p         the parameter `p` of the function at hand (every parameter; replaced by the actual role when
                the Lean side inlines the call)
  argFile p     join(<parameter p>, remote.filename)
  other         everything else
Rules: `join(b, c1, ..)` / `b / c` steps through the components (dataHome+folder -> cacheDir, cacheDir+filename
-> cacheEntry, cacheDir+x -> cacheOther, cacheEntry|cacheOther+x -> cacheOther, tmpDir+remote.filename ->
tmpArchive, tmpDir+x -> tmpPickle, systemTmp+x -> systemTmp, resource+x -> resource, arg p+remote.filename ->
argFile p, otherwise other); `expanduser / normpath / abspath / realpath / normcase / fspath / str` keep the
role; `dirname` of cacheEntry is cacheDir, of tmpArchive / tmpPickle tmpDir; `p + s`, an f-string that begins
with a path: cacheOther if p is cacheDir / cacheEntry / cacheOther, systemTmp if systemTmp, else other;
`x.name` keeps the role of `x`; `a if c else b`: the common role, or the role of the one branch that is not
`other`; the value of a module-level function is the role of its `return`s (all equal) with its parameters
replaced by the actual roles (`argFile p` becomes tmpArchive for p := tmpDir, systemTmp for systemTmp,
cacheOther for cacheDir / cacheEntry / cacheOther, `argFile q` for `arg q`, else other: `subst_role`, the twin
of `Role.subst` in Lean); a file object (`open`, `GzipFile`, `gzip.open`, `NamedTemporaryFile`) carries the
role of its path.  Names are tracked per function in source order; after `if / else` a name bound differently
in the two branches keeps the common role, or the role of the one branch that is not `other`, or becomes
`other`.  Components: `dataset_folder`, `dataset_filename` are the loader's parameters BY NAME,
`remote.filename` is `<parameter>.filename`.

Events (program order = evaluation order: arguments before the call; the names are those of the Lean type
`Event` - `makedirs`, `exists`, `open`, `close`, `rename`, `except` of the task's vocabulary are `mkdirs`,
`pathExists`, `openFile`, `closeFile`, `renameTo`, `handler`, because the plain words are Lean keywords)
  mkdirs r b        `os.makedirs(p, exist_ok=b)` (b false unless the constant True)
  pathExists r      `os.path.exists(p)`
  tmpEnter r / tmpLeave   `with TemporaryDirectory(dir=d) as t:` ... end of the block; r = systemTmp without `dir=`
  openFile r m h    `open(p, m)` (m "r" by default, "?" if not a constant), `GzipFile(filename=p)` / `gzip.open(p)`
                    (m "gzip:<mode>", "gzip:rb" by default); h = withBlock (an item of a `with`), bound (the
                    right-hand side of `name = open(...)`), inline (anywhere else: an anonymous object)
  openLeave r       end of the `with open(...)` block (the file is closed)
  closeFile r       `f.close()` of a file object
  urlretrieve r     `urllib.request.urlretrieve(url, p)` (systemTmp without p)
  sha256 r          a call of the module's `_sha256(p)`
  loadtxt r gz      `numpy.loadtxt(src)`; r the role of the path / of the file object, gz: a gzip file object
  dump r / load r   `pickle.dump(obj, f)` / `pickle.load(f)`, r the role of the file object
  renameTo s d      `os.rename(s, d)`
  moveTo api s d    `os.replace`, `shutil.move`, `shutil.copy`, `copy2`, `copyfile`, `copytree`
  remove r / rmtree r   `os.remove` / `os.unlink`; `shutil.rmtree`
  loop k h          `while h:` / `for .. in h:` ... mark "end"
  ifEnter t         `if t:` ... [mark "else" ...] mark "end" (`elif` is an `if` inside the `else`)
  handler ns        an `except` clause of the enclosing `try` (names resolved; [] for a bare `except:`); structure
                    mark "try", body, handler .., [mark "orelse" ..], [mark "finally" ..], mark "end"
  warn / sleep      `warnings.warn(...)` / `time.sleep(...)`
  warnFilter api    `warnings.catch_warnings`, `simplefilter`, `filterwarnings`, `resetwarnings`
  raise E           `raise E(...)` / `raise E` (E resolved, "" for a bare `raise`)
  ret r             `return e` (role of e)
  update n t        `n op= e` ("-= 1"), or `n = e` for a parameter n whose new value is not a path
  helper f rs ps    a call of a module-level function f: rs = (parameter of f, role) for every actual argument
                    with a role (a parameter of the caller has the role `arg <name>`), ps = "param=text" for
                    the others
  call f            any other call that is not PURE and not logging (`logger.*`, `logging.*`): f is the callee
                    text
  mark s            "else", "end", "try", "orelse", "finally", "break", "continue", "with" (a `with` item that
                    is none of the above), "import <module>" (an import inside a function), "@<decorator>"
  unsupported s     see below
Texts (tests, loop headers, callees, plain arguments) are rendered by an own printer, fully parenthesised and
independent of the Python version: a sub-expression with a role is `@<role>`, a parameter its name, a local
bound exactly once by `name = value` the text of that value, any other local `v1, v2, ..` in the order of first
printing, a callee its resolved dotted name (`os.path.exists`).

Supported subset
  module          docstring, `import` / `from .. import` (no `*`), plain `name = ..` assignments, `def`s (only the
                  functions named above are read); anything else at module level (a store into `os.rename`, a
                  bare call, `if`, `try`, a class) is reported
  statements      expression statements, `=`, `op=`, annotated `=`, `return`, `raise`, `assert` (its expressions
                  are read), `if`, `for`, `while`, `with`, `try`, `pass`, `break`, `continue`, `import`
  expressions     everything; a `lambda` body is not entered, comprehensions are
NOT supported (each gives the event `unsupported "<what>"` in place, a table entry `<module>` for things
outside functions, and the note `UNSUPPORTED ...`; the tie then fails, because `expected` has no such event):
nested `def` / `class`, `async`, `yield` / `await`, `del`, `global` / `nonlocal`, `match`, `from .. import *`,
module-level statements other than the ones above, a missing root function.
NOT seen at all (limits of a syntactic reading): what a callee outside the module does, aliasing of functions
through locals (`mv = os.rename; mv(a, b)` is `call os.rename`, not `renameTo`: the table changes and the
facts fail, but the step is not recognised), `pathlib` methods (they are `call ..`: the table
changes, the roles are lost), the CONTENT of what is written, flags passed by the callers, logging calls.
"""
from __future__ import annotations

import ast
import sys
from pathlib import Path

from .core import LEAN, REPO

OUT = LEAN / "TWV" / "Generated" / "LoaderProtocol.lean"
SRC = REPO / "src" / "traffic_weaver" / "datasets" / "_base.py"
SRCNAME = "_base.py"
REQUIRED = False
ROOTS = ("load_dataset", "get_data_home", "load_csv_dataset_from_resources", "_fetch_remote",
         "load_csv_dataset_from_remote")
OPTIONAL = ("load_csv_dataset_from_resources",)
WIDTH = 108

PURE = frozenset("""len isinstance issubclass int float bool str bytes complex range type tuple list dict set
frozenset min max abs repr id hasattr getattr callable enumerate zip sorted reversed sum any all round slice
iter next divmod pow hash format ord chr print""".split())
PURE_DOTTED = frozenset("""os.path.join os.path.expanduser os.path.normpath os.path.abspath os.path.realpath
os.path.normcase os.path.dirname os.path.basename os.path.split os.path.splitext os.path.commonpath
os.path.commonprefix os.path.isabs os.path.relpath os.fspath os.environ.get os.getenv""".split())
PURE_METHODS = frozenset("format startswith endswith replace strip lstrip rstrip lower upper".split())
KEEP_ROLE = frozenset("""os.path.expanduser os.path.normpath os.path.abspath os.path.realpath os.path.normcase
os.fspath str""".split())
ENV = frozenset("os.environ.get os.getenv".split())
TEMPFILE = frozenset("""tempfile.TemporaryDirectory tempfile.mkdtemp tempfile.mkstemp tempfile.NamedTemporaryFile
tempfile.gettempdir tempfile.mktemp tempfile.TemporaryFile tempfile.SpooledTemporaryFile""".split())
TEMPFILE_OBJECTS = frozenset("tempfile.NamedTemporaryFile tempfile.TemporaryFile tempfile.SpooledTemporaryFile".split())
OPENERS = {"open": "", "io.open": "", "gzip.GzipFile": "gzip:", "gzip.open": "gzip:"}
MOVES = frozenset("os.replace shutil.move shutil.copy shutil.copy2 shutil.copyfile shutil.copytree".split())
WARNFILTER = frozenset("""warnings.catch_warnings warnings.simplefilter warnings.filterwarnings
warnings.resetwarnings""".split())
CACHE_ROLES = ("cacheDir", "cacheEntry", "cacheOther")
FOLDER_PARAM, FILENAME_PARAM = "dataset_folder", "dataset_filename"
PARAM_ROLE = {("get_data_home", "data_home"): ("dataHome",)}

OTHER = ("other",)


# ---------------------------------------------------------------------------------------------------
# roles and values
# ---------------------------------------------------------------------------------------------------

def role_lean(r):
    return f"(.{r[0]} {lean_str(r[1])})" if len(r) == 2 else f".{r[0]}"


def role_text(r):
    return "@" + r[0] + (":" + r[1] if len(r) == 2 else "")


class Val:
    """what is known of a value: its role; `file`: a file object (of that path), `gz`: a gzip file object,
    `comp`: a path component (folder / filename / remoteName), `text`: the printed value of a local bound once"""

    def __init__(self, role=OTHER, file=False, gz=False, comp=None, text=None):
        self.role, self.file, self.gz, self.comp, self.text = role, file, gz, comp, text

    def key(self):
        return (self.role, self.file, self.gz, self.comp, self.text)


def join_step(role, comp):
    k = role[0]
    if k == "dataHome":
        return ("cacheDir",) if comp == "folder" else OTHER
    if k == "cacheDir":
        return ("cacheEntry",) if comp == "filename" else ("cacheOther",)
    if k in ("cacheEntry", "cacheOther"):
        return ("cacheOther",)
    if k == "tmpDir":
        return ("tmpArchive",) if comp == "remoteName" else ("tmpPickle",)
    if k in ("systemTmp", "resource"):
        return role
    if k == "arg":
        return ("argFile", role[1]) if comp == "remoteName" else OTHER
    return OTHER


def subst_role(r, actual):
    """the role `r` of a callee with its parameters replaced (mirrors `Role.subst` of the Lean model)"""
    if r[0] == "arg":
        return actual.get(r[1], OTHER)
    if r[0] == "argFile":
        a = actual.get(r[1], OTHER)
        if a[0] == "tmpDir":
            return ("tmpArchive",)
        if a[0] == "systemTmp":
            return a
        if a[0] in CACHE_ROLES:
            return ("cacheOther",)
        if a[0] == "arg":
            return ("argFile", a[1])
        return OTHER
    return r


def lean_str(s):
    out = []
    for ch in str(s):
        if ch == "\\":
            out.append("\\\\")
        elif ch == '"':
            out.append('\\"')
        elif 32 <= ord(ch) < 127:
            out.append(ch)
        else:
            out.append("?")
    return '"' + "".join(out) + '"'


class Ev:
    """one event, rendered as a Lean term of type `Event`"""

    def __init__(self, kind, *args):
        self.kind, self.args = kind, args

    def lean(self):
        parts = [f".{self.kind}"]
        for a in self.args:
            if isinstance(a, bool):
                parts.append("true" if a else "false")
            elif isinstance(a, tuple):
                parts.append(role_lean(a))
            elif isinstance(a, How):
                parts.append("." + a.name)
            elif isinstance(a, list):
                items = []
                for x in a:
                    if isinstance(x, tuple):        # (parameter, role)
                        items.append(f"({lean_str(x[0])}, {role_lean(x[1]).strip('()')})")
                    else:
                        items.append(lean_str(x))
                parts.append("[" + ", ".join(items) + "]")
            else:
                parts.append(lean_str(a))
        return " ".join(parts)

    def short(self):
        k, a = self.kind, self.args
        if k == "mark":
            return {"else": "|", "end": "]"}.get(a[0], f"<{a[0]}>")
        if k == "ifEnter":
            return f"[if {a[0]}:"
        if k == "loop":
            return f"[{a[0]} {a[1]}:"
        out = [k]
        for x in a:
            if isinstance(x, bool):
                out.append("T" if x else "F")
            elif isinstance(x, tuple):
                out.append(role_text(x)[1:])
            elif isinstance(x, How):
                out.append(x.name)
            elif isinstance(x, list):
                out.append("[" + ", ".join(f"{y[0]}={role_text(y[1])[1:]}" if isinstance(y, tuple) else y for y in x) + "]")
            else:
                out.append(repr(x) if k in ("openFile", "update", "raise", "warnFilter", "moveTo") else str(x))
        return " ".join(out)


class How:
    def __init__(self, name):
        self.name = name


WITH, INLINE, BOUND = How("withBlock"), How("inline"), How("bound")


def is_docstring(st):
    return isinstance(st, ast.Expr) and isinstance(st.value, ast.Constant) and isinstance(st.value.value, str)


def add_import(st, aliases, problems):
    if isinstance(st, ast.Import):
        for a in st.names:
            if a.asname:
                aliases[a.asname] = a.name
            else:
                top = a.name.split(".")[0]
                aliases[top] = top
        return
    mod = ("." * st.level) + (st.module or "")
    for a in st.names:
        if a.name == "*":
            problems.append(f"from {mod} import * ({SRCNAME}:{st.lineno})")
            continue
        aliases[a.asname or a.name] = f"{mod}.{a.name}" if mod else a.name


# ---------------------------------------------------------------------------------------------------
# one function
# ---------------------------------------------------------------------------------------------------

BINOPS = {ast.Add: "+", ast.Sub: "-", ast.Mult: "*", ast.Div: "/", ast.FloorDiv: "//", ast.Mod: "%", ast.Pow: "**",
          ast.BitOr: "|", ast.BitAnd: "&", ast.BitXor: "^", ast.LShift: "<<", ast.RShift: ">>", ast.MatMult: "@"}
CMPOPS = {ast.Eq: "==", ast.NotEq: "!=", ast.Lt: "<", ast.LtE: "<=", ast.Gt: ">", ast.GtE: ">=", ast.Is: "is",
          ast.IsNot: "is not", ast.In: "in", ast.NotIn: "not in"}
UNOPS = {ast.Not: "not ", ast.USub: "-", ast.UAdd: "+", ast.Invert: "~"}
ATOMS = (ast.Name, ast.Constant, ast.Call, ast.Attribute, ast.Subscript, ast.Tuple, ast.List, ast.JoinedStr, ast.Dict,
         ast.Set)


class Function:
    """the events of one module-level `def`"""

    def __init__(self, module, fn):
        self.m, self.fn = module, fn
        self.problems = module.problems
        self.aliases = dict(module.aliases)
        self.events = []
        self.env = {}
        self.alpha = {}
        a = fn.args
        self.params = [p.arg for p in a.posonlyargs + a.args + a.kwonlyargs]
        for p in (a.vararg, a.kwarg):
            if p is not None:
                self.params.append(p.arg)
        self.stores = {}
        for n in ast.walk(fn):
            if isinstance(n, ast.Name) and isinstance(n.ctx, (ast.Store, ast.Del)):
                self.stores[n.id] = self.stores.get(n.id, 0) + 1
        # a name bound exactly once, by a plain `name = value`
        self.single = set()
        for n in ast.walk(fn):
            if isinstance(n, ast.Assign) and len(n.targets) == 1 and isinstance(n.targets[0], ast.Name):
                nm = n.targets[0].id
                if self.stores.get(nm) == 1 and nm not in self.params:
                    self.single.add(nm)
        self.locals = set(self.params) | set(self.stores)
        for d in fn.decorator_list:
            self.emit("mark", "@" + self.plain_dotted(d.func if isinstance(d, ast.Call) else d)
                      + ("()" if isinstance(d, ast.Call) else ""))
        for d in a.defaults + [k for k in a.kw_defaults if k is not None]:
            self.expr(d)
        body = fn.body[1:] if fn.body and is_docstring(fn.body[0]) else fn.body
        self.block(body)

    # -- helpers ---------------------------------------------------------------------------------
    def emit(self, kind, *args):
        self.events.append(Ev(kind, *args))

    def unsupported(self, what, node):
        self.emit("unsupported", what)
        self.problems.append(f"{self.fn.name}: {what} ({SRCNAME}:{getattr(node, 'lineno', '?')})")

    def plain_dotted(self, e):
        if isinstance(e, ast.Name):
            return e.id
        if isinstance(e, ast.Attribute):
            return self.plain_dotted(e.value) + "." + e.attr
        return "<expr>"

    def resolved(self, e):
        """dotted name of a callee / exception with the imports resolved; None if it is not a plain dotted name
        rooted in an import, a builtin or a module-level function"""
        parts = []
        while isinstance(e, ast.Attribute):
            parts.append(e.attr)
            e = e.value
        if not isinstance(e, ast.Name) or e.id in self.locals:
            return None
        root = self.aliases.get(e.id, e.id)
        return ".".join([root] + parts[::-1])

    def is_logging(self, call):
        f = call.func
        while isinstance(f, ast.Attribute):
            f = f.value
        if not isinstance(f, ast.Name) or f.id in self.locals:
            return False
        return f.id in self.m.loggers or self.aliases.get(f.id) == "logging"

    # -- values ----------------------------------------------------------------------------------
    def val(self, e):
        """the value of an expression (no events)"""
        if e is None:
            return Val()
        if isinstance(e, ast.Name):
            if e.id in self.env:
                return self.env[e.id]
            if e.id in self.params:
                comp = {FOLDER_PARAM: "folder", FILENAME_PARAM: "filename"}.get(e.id)
                return Val(PARAM_ROLE.get((self.fn.name, e.id), ("arg", e.id)), comp=comp)
            return Val()
        if isinstance(e, ast.Attribute):
            if e.attr == "filename" and isinstance(e.value, ast.Name) and e.value.id in self.params \
                    and e.value.id not in self.env:
                return Val(comp="remoteName")
            if e.attr == "name":
                v = self.val(e.value)
                return Val(v.role) if v.role[0] != "arg" else Val()
            return Val()
        if isinstance(e, ast.Subscript):
            if self.resolved(e.value) == "os.environ":
                return Val(("dataHome",))
            return Val()
        if isinstance(e, ast.IfExp):
            a, b = self.val(e.body), self.val(e.orelse)
            if a.role == b.role:
                return Val(a.role, a.file and b.file, a.gz and b.gz)
            if b.role == OTHER:
                return Val(a.role, a.file, a.gz)
            if a.role == OTHER:
                return Val(b.role, b.file, b.gz)
            return Val()
        if isinstance(e, ast.BinOp) and isinstance(e.op, ast.Div):
            base = self.val(e.left)
            return Val(join_step(base.role, self.val(e.right).comp)) if not base.file else Val()
        if isinstance(e, ast.BinOp) and isinstance(e.op, ast.Add):
            return Val(self.sibling(self.val(e.left)))
        if isinstance(e, ast.JoinedStr):
            first = e.values[0] if e.values else None
            if isinstance(first, ast.FormattedValue):
                return Val(self.sibling(self.val(first.value)))
            return Val()
        if isinstance(e, ast.NamedExpr):
            return self.val(e.value)
        if isinstance(e, ast.Call):
            return self.call_val(e)
        return Val()

    @staticmethod
    def sibling(v):
        if v.file:
            return OTHER
        if v.role[0] in CACHE_ROLES:
            return ("cacheOther",)
        if v.role[0] == "systemTmp":
            return v.role
        return OTHER

    def kwarg(self, call, name, pos=None):
        for k in call.keywords:
            if k.arg == name:
                return k.value
        if pos is not None and len(call.args) > pos and not any(isinstance(a, ast.Starred) for a in call.args[:pos + 1]):
            return call.args[pos]
        return None

    def call_val(self, call):
        d = self.resolved(call.func)
        if d is None:
            return Val()
        if d == "os.path.join":
            if not call.args or any(isinstance(a, ast.Starred) for a in call.args):
                return Val()
            base = self.val(call.args[0])
            if base.file:
                return Val()
            r = base.role
            for c in call.args[1:]:
                r = join_step(r, self.val(c).comp)
            return Val(r)
        if d in KEEP_ROLE and d not in self.locals:
            v = self.val(call.args[0]) if call.args else Val()
            return Val(v.role if not v.file else OTHER)
        if d == "os.path.dirname":
            v = self.val(call.args[0]) if call.args else Val()
            return Val({"cacheEntry": ("cacheDir",), "tmpArchive": ("tmpDir",), "tmpPickle": ("tmpDir",)}.get(v.role[0], OTHER))
        if d in ENV:
            return Val(("dataHome",))
        if d in TEMPFILE:
            return Val(("systemTmp",) if self.kwarg(call, "dir") is None else OTHER, file=d in TEMPFILE_OBJECTS)
        if d in ("importlib.resources.files", "importlib.resources.path", "importlib.resources.as_file"):
            return Val(("resource",))
        if d in OPENERS:
            p = self.kwarg(call, "filename", 0) if d == "gzip.GzipFile" else self.kwarg(call, "file", 0)
            if p is None and d == "gzip.open":
                p = self.kwarg(call, "filename", 0)
            v = self.val(p)
            return Val(v.role, file=True, gz=bool(OPENERS[d]) or v.gz)
        if d in self.m.functions:
            return Val(self.m.return_role(d, self.actual_roles(call, d)))
        return Val()

    def actual_roles(self, call, fname):
        """parameter of the module-level function `fname` -> role of the actual argument"""
        out = {}
        for p, a in self.bind_args(call, fname):
            if p is not None:
                v = self.val(a)
                out[p] = v.role if not v.file else OTHER
        return out

    def bind_args(self, call, fname):
        """[(parameter name or None, actual expression)] in call order"""
        fa = self.m.functions[fname].args
        names = [p.arg for p in fa.posonlyargs + fa.args]
        out = []
        starred = False
        for i, a in enumerate(call.args):
            if isinstance(a, ast.Starred):
                starred = True
            out.append((names[i] if i < len(names) and not starred else None, a))
        for k in call.keywords:
            out.append((k.arg, k.value))
        return out

    # -- text ------------------------------------------------------------------------------------
    def text(self, e):
        """own printer: fully parenthesised, roles for paths, locals renamed"""
        return self.text2(e)[0]

    def atom(self, e):
        t, atomic = self.text2(e)
        return t if atomic else f"({t})"

    def callee(self, f):
        """the text of a callee"""
        d = self.resolved(f)
        if d is not None:
            return d
        if isinstance(f, (ast.Name, ast.Attribute)):
            return self.text(f)
        if isinstance(f, ast.Call):
            return self.callee(f.func) + "()"
        if isinstance(f, ast.Subscript):
            return self.callee(f.value) + "[]"
        if isinstance(f, ast.Lambda):
            return "<lambda>"
        return "<expr>"

    def text2(self, e):
        """-> (text, the text needs no parentheses as an operand)"""
        if e is None:
            return "None", True
        v = self.val(e)
        shown = ("file(" + role_text(v.role) + ")") if v.file else role_text(v.role)
        if isinstance(e, ast.Name):
            if e.id in self.params and e.id not in self.env:
                return e.id, True
            if v.role != OTHER:
                return shown, True
            if e.id in self.env and self.env[e.id].text is not None:
                return self.env[e.id].text
            if e.id in self.params:
                return e.id, True
            if e.id in self.locals:
                if e.id not in self.alpha:
                    self.alpha[e.id] = f"v{len(self.alpha) + 1}"
                return self.alpha[e.id], True
            return self.aliases.get(e.id, e.id), True
        if v.role != OTHER and v.role[0] != "arg":
            if not isinstance(e, ast.Call):
                return shown, True
            if self.resolved(e.func) not in self.m.functions and self.resolved(e.func) not in OPENERS:
                return shown, True
        if isinstance(e, ast.Constant):
            return repr(e.value), True
        if isinstance(e, ast.Attribute):
            d = self.resolved(e)
            return (d if d is not None else self.atom(e.value) + "." + e.attr), True
        if isinstance(e, ast.Call):
            args = [self.text(a) for a in e.args]
            args += [(f"{k.arg}=" if k.arg else "**") + self.text(k.value) for k in e.keywords]
            return f"{self.callee(e.func)}({', '.join(args)})", True
        if isinstance(e, ast.BoolOp):
            op = " and " if isinstance(e.op, ast.And) else " or "
            return op.join(self.atom(x) for x in e.values), False
        if isinstance(e, ast.UnaryOp):
            return UNOPS[type(e.op)] + self.atom(e.operand), False
        if isinstance(e, ast.BinOp):
            return f"{self.atom(e.left)} {BINOPS[type(e.op)]} {self.atom(e.right)}", False
        if isinstance(e, ast.Compare):
            out = self.atom(e.left)
            for op, c in zip(e.ops, e.comparators):
                out += f" {CMPOPS[type(op)]} {self.atom(c)}"
            return out, False
        if isinstance(e, ast.Subscript):
            return f"{self.atom(e.value)}[{self.text(e.slice)}]", True
        if isinstance(e, ast.Slice):
            return ":".join("" if x is None else self.text(x) for x in (e.lower, e.upper)) + \
                ("" if e.step is None else ":" + self.text(e.step)), True
        if isinstance(e, (ast.Tuple, ast.List)):
            inner = ", ".join(self.text(x) for x in e.elts)
            return (f"({inner})" if isinstance(e, ast.Tuple) else f"[{inner}]"), True
        if isinstance(e, ast.IfExp):
            return f"{self.atom(e.body)} if {self.atom(e.test)} else {self.atom(e.orelse)}", False
        if isinstance(e, ast.JoinedStr):
            parts = []
            for x in e.values:
                if isinstance(x, ast.Constant):
                    parts.append(str(x.value))
                else:
                    parts.append("{" + self.text(x.value) + "}")
            return "f" + repr("".join(parts)), True
        if isinstance(e, ast.Starred):
            return "*" + self.atom(e.value), True
        if isinstance(e, ast.NamedExpr):
            return f"{self.text(e.target)} := {self.text(e.value)}", False
        return f"<{type(e).__name__}>", True

    # -- expressions -----------------------------------------------------------------------------
    def expr(self, e, how=INLINE):
        """events of evaluating `e`; `how` tells an opener at the top of `e` how its result is held"""
        if e is None:
            return
        if isinstance(e, ast.Lambda):
            for d in e.args.defaults + [k for k in e.args.kw_defaults if k is not None]:
                self.expr(d)
            return
        if isinstance(e, (ast.Await, ast.Yield, ast.YieldFrom)):
            self.expr(getattr(e, "value", None))
            self.unsupported(type(e).__name__.lower(), e)
            return
        if isinstance(e, (ast.ListComp, ast.SetComp, ast.GeneratorExp, ast.DictComp)):
            for g in e.generators:
                self.expr(g.iter)
                for c in g.ifs:
                    self.expr(c)
            if isinstance(e, ast.DictComp):
                self.expr(e.key)
                self.expr(e.value)
            else:
                self.expr(e.elt)
            return
        if isinstance(e, ast.Call):
            self.call(e, how)
            return
        for c in ast.iter_child_nodes(e):
            if isinstance(c, ast.expr):
                self.expr(c)
            elif isinstance(c, ast.keyword):
                self.expr(c.value)

    def call(self, e, how):
        self.expr(e.func)
        for a in e.args:
            self.expr(a.value if isinstance(a, ast.Starred) else a)
        for k in e.keywords:
            self.expr(k.value)
        f = e.func
        d = self.resolved(f)

        def role(x):
            v = self.val(x)
            return v.role if not v.file or d in ("pickle.dump", "pickle.load") else OTHER
        if d is not None and d in PURE and d not in self.m.functions:
            return
        if d in PURE_DOTTED or self.is_logging(e):
            return
        if d == "os.makedirs":
            ok = self.kwarg(e, "exist_ok", 2)
            self.emit("mkdirs", role(self.kwarg(e, "name", 0)), isinstance(ok, ast.Constant) and ok.value is True)
        elif d == "os.path.exists":
            self.emit("pathExists", role(self.kwarg(e, "path", 0)))
        elif d in OPENERS:
            v = self.call_val(e)
            mode = self.kwarg(e, "mode", 1)
            if mode is None:
                m = "rb" if OPENERS[d] else "r"
            elif isinstance(mode, ast.Constant) and isinstance(mode.value, str):
                m = mode.value
            else:
                m = "?"
            self.emit("openFile", v.role, OPENERS[d] + m, how)
        elif d == "urllib.request.urlretrieve":
            p = self.kwarg(e, "filename", 1)
            self.emit("urlretrieve", role(p) if p is not None else ("systemTmp",))
        elif d == "_sha256" and d in self.m.functions:
            self.m.reach(d)
            self.emit("sha256", role(self.kwarg(e, self.m.functions[d].args.args[0].arg
                                                if self.m.functions[d].args.args else "path", 0)))
        elif d == "numpy.loadtxt":
            v = self.val(self.kwarg(e, "fname", 0))
            self.emit("loadtxt", v.role, v.gz)
        elif d == "pickle.dump":
            self.emit("dump", role(self.kwarg(e, "file", 1)))
        elif d == "pickle.load":
            self.emit("load", role(self.kwarg(e, "file", 0)))
        elif d == "os.rename":
            self.emit("renameTo", role(self.kwarg(e, "src", 0)), role(self.kwarg(e, "dst", 1)))
        elif d in MOVES:
            self.emit("moveTo", d, role(self.kwarg(e, "src", 0)), role(self.kwarg(e, "dst", 1)))
        elif d in ("os.remove", "os.unlink"):
            self.emit("remove", role(self.kwarg(e, "path", 0)))
        elif d == "shutil.rmtree":
            self.emit("rmtree", role(self.kwarg(e, "path", 0)))
        elif d == "warnings.warn":
            self.emit("warn")
        elif d in WARNFILTER:
            self.emit("warnFilter", d.split(".")[-1])
        elif d == "time.sleep":
            self.emit("sleep")
        elif d is not None and d in self.m.functions:
            self.m.reach(d)
            roles, plain = [], []
            for p, a in self.bind_args(e, d):
                v = self.val(a)
                r = v.role if not v.file else OTHER
                if p is not None and r != OTHER:
                    roles.append((p, r))
                else:
                    plain.append(f"{p if p is not None else '*'}={self.text(a)}")
            self.emit("helper", d, roles, plain)
        elif isinstance(f, ast.Attribute) and f.attr == "close" and self.val(f.value).file and not e.args:
            self.emit("closeFile", self.val(f.value).role)
        elif isinstance(f, ast.Attribute) and f.attr in PURE_METHODS and \
                (d is None or d.split(".")[0] not in self.aliases.values()):
            return
        else:
            self.emit("call", self.callee(f))

    # -- statements ------------------------------------------------------------------------------
    def block(self, stmts):
        for st in stmts:
            self.stmt(st)

    def bind(self, target, value_node=None, val=None):
        """bind the names of a target; `val` for a plain name"""
        if isinstance(target, ast.Name):
            self.env[target.id] = val if val is not None else Val()
        elif isinstance(target, (ast.Tuple, ast.List)):
            for x in target.elts:
                self.bind(x)
        elif isinstance(target, ast.Starred):
            self.bind(target.value)
        elif isinstance(target, ast.Attribute):
            self.expr(target.value)
        elif isinstance(target, ast.Subscript):
            self.expr(target.value)
            self.expr(target.slice)

    def assign(self, targets, value):
        opener = isinstance(value, ast.Call) and self.resolved(value.func) in OPENERS
        self.expr(value, BOUND if opener and any(isinstance(t, ast.Name) for t in targets) else INLINE)
        v = self.val(value)
        for t in targets:
            if isinstance(t, ast.Name):
                if v.role == OTHER and v.comp is None and t.id in self.single:
                    v = Val(text=self.text2(value))
                if t.id in self.params and v.role == OTHER and v.comp is None:
                    self.emit("update", t.id, "= " + self.text(value))
                self.bind(t, val=v)
            else:
                self.bind(t)

    def merge(self, a, b):
        out = {}
        for n in set(a) | set(b):
            x, y = a.get(n), b.get(n)
            if x is None or y is None:
                # bound in one branch only: the parameter / unbound name on the other side
                z = x if x is not None else y
                if n in self.params:
                    p = PARAM_ROLE.get((self.fn.name, n), ("arg", n))
                    out[n] = z if z.role == p else Val()
                else:
                    out[n] = z
            elif x.key() == y.key():
                out[n] = x
            elif x.role == y.role and x.file == y.file:
                out[n] = Val(x.role, x.file, x.gz and y.gz)
            elif y.role == OTHER:
                out[n] = Val(x.role, x.file, x.gz)
            elif x.role == OTHER:
                out[n] = Val(y.role, y.file, y.gz)
            else:
                out[n] = Val()
        return out

    def stmt(self, st):
        if isinstance(st, ast.Expr):
            if not isinstance(st.value, ast.Constant):
                self.expr(st.value)
        elif isinstance(st, ast.Assign):
            self.assign(st.targets, st.value)
        elif isinstance(st, ast.AnnAssign):
            if st.value is not None:
                self.assign([st.target], st.value)
        elif isinstance(st, ast.AugAssign):
            self.expr(st.value)
            if isinstance(st.target, ast.Name):
                name = st.target.id if st.target.id in self.params else self.text(st.target)
                self.emit("update", name, f"{BINOPS.get(type(st.op), '?')}= {self.text(st.value)}")
                old = self.val(st.target)
                self.env[st.target.id] = Val(self.sibling(old)) if isinstance(st.op, ast.Add) else Val()
            else:
                self.bind(st.target)
                self.emit("update", self.text(st.target), f"{BINOPS.get(type(st.op), '?')}= {self.text(st.value)}")
        elif isinstance(st, ast.Return):
            self.expr(st.value)
            v = self.val(st.value)
            self.emit("ret", v.role if not v.file else OTHER)
        elif isinstance(st, ast.Raise):
            exc = st.exc
            if exc is None:
                name = ""
            elif isinstance(exc, ast.Call):
                self.expr(exc.func)
                for a in exc.args:
                    self.expr(a)
                for k in exc.keywords:
                    self.expr(k.value)
                name = self.resolved(exc.func) or self.text(exc.func)
            else:
                self.expr(exc)
                name = self.resolved(exc) or self.text(exc)
            self.expr(st.cause)
            self.emit("raise", name)
        elif isinstance(st, ast.Assert):
            self.expr(st.test)
            self.expr(st.msg)
        elif isinstance(st, ast.If):
            self.expr(st.test)
            self.emit("ifEnter", self.text(st.test))
            pre = dict(self.env)
            self.block(st.body)
            env1 = self.env
            self.env = dict(pre)
            if st.orelse:
                self.emit("mark", "else")
                self.block(st.orelse)
            self.env = self.merge(env1, self.env)
            self.emit("mark", "end")
        elif isinstance(st, (ast.For, ast.While)):
            if isinstance(st, ast.For):
                self.expr(st.iter)
                self.emit("loop", "for", self.text(st.iter))
                self.bind(st.target)
            else:
                self.emit("loop", "while", self.text(st.test))
                self.expr(st.test)
            self.block(st.body)
            if st.orelse:
                self.emit("mark", "orelse")
                self.block(st.orelse)
            self.emit("mark", "end")
        elif isinstance(st, ast.With):
            closers = []
            for it in st.items:
                ce = it.context_expr
                d = self.resolved(ce.func) if isinstance(ce, ast.Call) else None
                if d == "tempfile.TemporaryDirectory":
                    for a in ce.args:
                        self.expr(a)
                    for k in ce.keywords:
                        self.expr(k.value)
                    dr = self.kwarg(ce, "dir", 2)
                    self.emit("tmpEnter", self.val(dr).role if dr is not None else ("systemTmp",))
                    closers.append(Ev("tmpLeave"))
                    if it.optional_vars is not None:
                        self.bind(it.optional_vars, val=Val(("tmpDir",) if dr is not None else ("systemTmp",)))
                elif d in OPENERS:
                    self.expr(ce, WITH)
                    v = self.val(ce)
                    closers.append(Ev("openLeave", v.role))
                    if it.optional_vars is not None:
                        self.bind(it.optional_vars, val=v)
                else:
                    self.expr(ce)
                    self.emit("mark", "with")
                    closers.append(Ev("mark", "end"))
                    if it.optional_vars is not None:
                        v = self.val(ce)
                        self.bind(it.optional_vars, val=Val(v.role if v.role[0] == "systemTmp" else OTHER, file=v.file))
            self.block(st.body)
            self.events.extend(reversed(closers))
        elif isinstance(st, ast.Try) or type(st).__name__ == "TryStar":
            self.emit("mark", "try")
            self.block(st.body)
            for h in st.handlers:
                if h.type is None:
                    names = []
                elif isinstance(h.type, ast.Tuple):
                    names = [self.resolved(x) or self.text(x) for x in h.type.elts]
                else:
                    names = [self.resolved(h.type) or self.text(h.type)]
                self.emit("handler", names)
                if h.name:
                    self.env[h.name] = Val()
                self.block(h.body)
            if st.orelse:
                self.emit("mark", "orelse")
                self.block(st.orelse)
            if st.finalbody:
                self.emit("mark", "finally")
                self.block(st.finalbody)
            self.emit("mark", "end")
        elif isinstance(st, ast.Pass):
            pass
        elif isinstance(st, ast.Break):
            self.emit("mark", "break")
        elif isinstance(st, ast.Continue):
            self.emit("mark", "continue")
        elif isinstance(st, (ast.Import, ast.ImportFrom)):
            add_import(st, self.aliases, self.problems)
            for a in st.names:
                nm = a.asname or a.name.split(".")[0]
                self.locals.discard(nm)
                self.env.pop(nm, None)
            mod = ("." * st.level + (st.module or "")) if isinstance(st, ast.ImportFrom) else ", ".join(a.name for a in st.names)
            self.emit("mark", "import " + mod)
        elif isinstance(st, (ast.FunctionDef, ast.AsyncFunctionDef, ast.ClassDef)):
            self.unsupported(f"nested {'class' if isinstance(st, ast.ClassDef) else 'def'} {st.name}", st)
        elif isinstance(st, ast.Delete):
            self.unsupported("del", st)
        elif isinstance(st, (ast.Global, ast.Nonlocal)):
            self.unsupported(type(st).__name__.lower() + " " + ", ".join(st.names), st)
        else:
            self.unsupported(type(st).__name__, st)


# ---------------------------------------------------------------------------------------------------
# the module
# ---------------------------------------------------------------------------------------------------

class Module:
    def __init__(self, tree):
        self.problems = []
        self.aliases = {}
        self.functions = {}
        self.loggers = set()
        self.outside = []
        self.order = []
        for i, st in enumerate(tree.body):
            if i == 0 and is_docstring(st):
                continue
            if isinstance(st, (ast.Import, ast.ImportFrom)):
                add_import(st, self.aliases, self.problems)
                for a in st.names:
                    if a.name == "*":
                        self.outside.append("import *")
            elif isinstance(st, ast.FunctionDef):
                if st.name in self.functions:
                    self.outside.append(f"second def {st.name}")
                    self.problems.append(f"second def {st.name} ({SRCNAME}:{st.lineno})")
                self.functions[st.name] = st
                self.order.append(st.name)
            elif isinstance(st, (ast.Assign, ast.AnnAssign)) and all(
                    isinstance(t, ast.Name) for t in (st.targets if isinstance(st, ast.Assign) else [st.target])):
                v = st.value
                if isinstance(v, ast.Call) and isinstance(v.func, ast.Attribute) and v.func.attr == "getLogger":
                    for t in (st.targets if isinstance(st, ast.Assign) else [st.target]):
                        self.loggers.add(t.id)
                for t in (st.targets if isinstance(st, ast.Assign) else [st.target]):
                    if t.id in self.functions or t.id in self.aliases:
                        self.outside.append(f"module-level rebinding of {t.id}")
                        self.problems.append(f"module-level rebinding of {t.id} ({SRCNAME}:{st.lineno})")
            else:
                self.outside.append(f"module-level {type(st).__name__}")
                self.problems.append(f"module-level {type(st).__name__} ({SRCNAME}:{st.lineno})")
        self.done = {}
        self.pending = []
        self.in_progress = set()

    def reach(self, name):
        if name not in self.done and name not in self.pending:
            self.pending.append(name)

    def function(self, name):
        if name not in self.done:
            if name in self.in_progress:
                return None
            self.in_progress.add(name)
            self.done[name] = Function(self, self.functions[name])
            self.in_progress.discard(name)
        return self.done[name]

    def return_role(self, name, actual):
        f = self.function(name)
        if f is None:
            return OTHER
        rets = {e.args[0] for e in f.events if e.kind == "ret"}
        if len(rets) != 1:
            return OTHER
        return subst_role(rets.pop(), actual)

    def table(self):
        for r in ROOTS:
            if r in self.functions:
                self.reach(r)
            elif r not in OPTIONAL:
                self.outside.append(f"no def {r}")
                self.problems.append(f"no def {r}")
        while self.pending:
            self.function(self.pending.pop(0))
        tab = []
        if self.outside:
            tab.append(("<module>", [Ev("unsupported", w) for w in self.outside]))
        for name in self.order:
            if name in self.done and self.functions[name] is self.done[name].fn:
                tab.append((name, self.done[name].events))
        return tab


def translate(text):
    """-> (table [(name, [Ev])], problems [str])"""
    try:
        tree = ast.parse(text)
    except SyntaxError as e:
        return [("<module>", [Ev("unsupported", "syntax error")])], [f"syntax error ({SRCNAME}:{e.lineno})"]
    m = Module(tree)
    tab = m.table()
    return tab, m.problems


def wrap(items, indent):
    lines, cur = [], ""
    for it in items:
        piece = it + ", "
        if cur and len(indent) + len(cur) + len(piece) > WIDTH:
            lines.append(indent + cur.rstrip())
            cur = ""
        cur += piece
    if cur:
        lines.append(indent + cur.rstrip())
    if lines:
        lines[-1] = lines[-1].rstrip(",")
    return lines


HEADER = """import TWV.Model.LoaderProtocol

/-! GENERATED by harness/t7_loader.py from src/traffic_weaver/datasets/_base.py — do not edit.

The protocol events (file-system and network steps with the roles of their paths, control structure) of
`load_dataset`, `get_data_home`, `load_csv_dataset_from_resources`, `_fetch_remote`,
`load_csv_dataset_from_remote` and of every module-level function they call, in program order, functions in
source order.  `TWV/Tie/LoaderProtocol.lean` proves this table equal to the hand-written
`TWV.LoaderProtocol.expected` and states the protocol facts (a)-(g) on it. -/

namespace TWV
namespace Generated.LoaderProtocol

open TWV.LoaderProtocol (Event)
"""


def render(table):
    out = [HEADER, "def generated : List (String × List Event) := ["]
    for i, (name, evs) in enumerate(table):
        last = i == len(table) - 1
        if not evs:
            out.append(f"  ({lean_str(name)}, []){'' if last else ','}")
            continue
        one = f"  ({lean_str(name)}, [" + ", ".join(e.lean() for e in evs) + "])" + ("" if last else ",")
        if len(one) <= WIDTH:
            out.append(one)
            continue
        out.append(f"  ({lean_str(name)}, [")
        lines = wrap([e.lean() for e in evs], "    ")
        lines[-1] += "])" + ("" if last else ",")
        out.extend(lines)
    out.append("]")
    out.append("")
    out.append("end Generated.LoaderProtocol")
    out.append("end TWV")
    return "\n".join(out) + "\n"


def generate(text=None):
    """-> (Lean text, problems, table)"""
    if text is None:
        text = SRC.read_text()
    table, problems = translate(text)
    return render(table), problems, table


def short_table(text=None):
    """function -> events, one line per function (for reports)"""
    if text is None:
        text = SRC.read_text()
    table, _ = translate(text)
    return "\n".join(f"{name}: " + " · ".join(e.short() for e in evs) for name, evs in table)


def regenerate(text=None, out=None):
    lean, problems, table = generate(text)
    out = Path(out) if out is not None else OUT
    out.parent.mkdir(parents=True, exist_ok=True)
    changed = (not out.exists()) or out.read_text() != lean
    if changed:
        out.write_text(lean)
    n_ev = sum(len(evs) for _, evs in table)
    if problems:
        note = "UNSUPPORTED " + "; ".join(problems) + f"; {len(table)} table entries, {n_ev} events"
    else:
        note = f"{len(table)} functions of {SRCNAME}, {n_ev} protocol events"
    return f"{note} ({'rewritten' if changed else 'unchanged'})"


def main(argv):
    """python -m harness.t7_loader [--src FILE] [--stdout | --short]   (FILE: a text of _base.py)"""
    src, mode = None, "write"
    it = iter(argv)
    for a in it:
        if a == "--src":
            src = Path(next(it)).read_text()
        elif a == "--stdout":
            mode = "stdout"
        elif a == "--short":
            mode = "short"
        else:
            print(main.__doc__)
            return 2
    if mode == "stdout":
        lean, problems, _ = generate(src)
        print(lean)
        for p in problems:
            print("-- UNSUPPORTED", p)
    elif mode == "short":
        print(short_table(src))
    else:
        print(regenerate(src))
    return 0


if __name__ == "__main__":
    sys.exit(main(sys.argv[1:]))
