"""Translator T4: the loops of the four window strategies of /repo/src/traffic_weaver/rfa.py
(Python AST) -> lean/TWV/Generated/RfaLoops.lean

Source: `rfa.py` (working tree of /repo unless the text is handed in).  For each of
`LinearFixedRFA.rfa`, `LinearAdaptiveRFA.rfa`, `ExpFixedRFA.rfa`, `ExpAdaptiveRFA.rfa` the BODY of the
main loop `for k in range(1, x.nr_of_full_intervals() - 1):` becomes one Lean definition
(`linFixedIter`, `linAdaptiveIter`, `expFixedIter`, `expAdaptiveIter`: one iteration, array in, array
out) in the vocabulary of `TWV/Model/RfaImp.lean` (`writeRange`) and `TWV/Model/Funfit.lean`.
The tie `TWV/Tie/RfaLoops.lean` proves the generated definitions equal to the hand-written
imperative model (`RfaImp.linIter` / `RfaImp.expIter`).

Supported subset
  frame        (checked, not translated; anything else in the method is UNSUPPORTED)
               `x, y = self._initial_oversample()`; `name = self.<attr>` / `name = name` /
               `name = <integer expression>`; `z = np.array(y, copy=True)` (also `np.copy(y)`, `y.copy()`);
               `v = IntervalArray(<raw array> | <interval array>.array, n)`;
               `v.extend_linspace(direction='both')`, `v.extend_constant(direction='both')` (or no argument);
               adaptive: `a_ls, a_rs, g = [self|LinearAdaptiveRFA].get_adaptive_transition_points(x, y, self.a,
               self.adaptive_smooth)` on the extended x / y, `b_ls = [int(beta * v) for v in a_ls]`;
               the loop `for k in range(1, v.nr_of_full_intervals() - 1)` over an array extended on both sides;
               `return x.array[n:-n], z.array[n:-n]`.  At the loop: x must be the linspace-oversampled array
               extended linspace/both, y the piecewise-constant array extended constant/both, z (the array
               the loop writes) a *different* interval array built from y's data and extended constant/both.
  loop body    `name = <scalar>` / `name = <integer expression>` (integers are inlined);
               `if <test>: <assignments> [elif ...] [else: <assignments>]` -> `let name := if c then a else b`
               for every name assigned in a branch (a name missing in one branch keeps its old value; a name
               that has none is a temporary of that branch);
               `for i in range([lo,] hi): [temporaries;] z[r, i (+ c)] = <scalar>` ->
               `RfaImp.writeRange z (r * n (+ c)) lo hi (fun i => ...)`, threaded in program order;
               a single store `z[r, c] = <scalar>` -> `RfaImp.setAt z (r * n + c) ...`;
               docstrings, `pass`.  The loop never reads `z`.
  integers     `n`, `self.n`, the window names, `k`, `i`, literals, `+`, `-`, products of atoms, `a_ls[e]`,
               `a if c else b`.  Fixed strategies: `a_l`/`self.a_l` -> `aL`, `a_r`/`self.a_r` -> `aR`,
               `b`/`self.b` -> `b` (constant windows, parameters of the definition); adaptive strategies:
               `a_ls[e]` -> `w.aL e`, `a_rs[e]` -> `w.aR e`, `b_ls[e]` -> `w.bL e`, `b_rs[e]` -> `w.bR e`.
               Python integers are unbounded, Lean's `Nat` truncates: sums are flattened IN SOURCE ORDER
               (`x[k, n - a_r]` is flat index `k * n + n - aR`, not `k * n + (n - aR)`), which is exact
               whenever every prefix of the sum is non-negative (the hand model makes the same choice).
  scalars      `x[r, c]` -> `X (r * n + c)`, `x[e]` -> `X e`, `y[r, 0]` -> `Y r`, `y[r, c]` -> `YE (r * n + c)`,
               `y[e]` -> `YE e` (a FLAT index), local scalars, numeric literals, `+ - * /`, unary minus,
               `a if c else b`, and calls of the shape functions imported from `.funfit`:
               `lin_fit(x, (x0, y0), (x1, y1))`, `lin_exp_xy_fit / exp_lin_fit / exp_fit / exp_xy_fit(...,
               alpha=exp)` with `exp` = `self.exp` -> the `pw` parameter; no `alpha` -> the default exponent 2
               (`fun t => t * t`), a literal `alpha=1..8` -> the corresponding product.
  tests        `==`, `!=`, `<`, `<=`, `>`, `>=` between integers (or scalars), `and`, `or`, `not`.
Anything else in a method: its definition is emitted as an alias of the hand model with a note
`UNSUPPORTED <method>: <reason>`; its tie theorem then holds trivially and the tie for that method is
the differential correspondence only.
"""
from __future__ import annotations

import ast
import re
import sys
from fractions import Fraction
from pathlib import Path

from .core import LEAN, REPO

OUT = LEAN / "TWV" / "Generated" / "RfaLoops.lean"
SRC = REPO / "src" / "traffic_weaver" / "rfa.py"
REQUIRED = False


class Unsupported(Exception):
    pass


# ---------------------------------------------------------------------------------------------
# what is translated
# ---------------------------------------------------------------------------------------------

class Spec:
    def __init__(self, cls, gen, fixed, exp):
        self.cls, self.gen, self.fixed, self.exp = cls, gen, fixed, exp

    @property
    def method(self):
        return f"{self.cls}.rfa"

    @property
    def binders(self):
        pw = "(pw : K → K) " if self.exp else ""
        if self.fixed:
            win = "(n aL aR b : Nat)" if self.exp else "(n aL aR : Nat)"
        else:
            win = "(n : Nat) (w : Rfa.Windows)"
        return f"{pw}(X Y YE : Nat → K) {win} (z : Nat → K) (k : Nat)"

    @property
    def fallback(self):
        w = ("(constW aL aR b)" if self.exp else "(constW aL aR 0)") if self.fixed else "w"
        flag = "false" if self.fixed else "true"
        if self.exp:
            return f"RfaImp.expIter pw X Y YE n {w} {flag} z k"
        return f"RfaImp.linIter X Y YE n {w} {flag} z k"


SPECS = [
    Spec("LinearFixedRFA", "linFixedIter", True, False),
    Spec("LinearAdaptiveRFA", "linAdaptiveIter", False, False),
    Spec("ExpFixedRFA", "expFixedIter", True, True),
    Spec("ExpAdaptiveRFA", "expAdaptiveIter", False, True),
]

FITS = {"lin_fit": ("linFit", False), "exp_fit": ("expFit", True), "exp_xy_fit": ("expXYFit", True),
        "exp_lin_fit": ("expLinFit", True), "lin_exp_xy_fit": ("linExpXYFit", True)}
DEFAULT_EXPONENT = 2  # funfit.py: `alpha=2` / `alpha: float = 2.0`

LEAN_RESERVED = {
    "at", "from", "fun", "end", "do", "then", "else", "if", "let", "have", "show", "in", "with", "match", "by",
    "open", "def", "theorem", "where", "section", "namespace", "variable", "instance", "structure", "class",
    "import", "export", "private", "protected", "mutual", "universe", "deriving", "extends", "for", "return",
    "using", "calc", "Type", "Prop", "Sort", "forall", "exists", "this", "nomatch", "nofun", "macro", "syntax",
    "infix", "infixl", "infixr", "notation", "prefix", "postfix", "set_option", "attribute", "local", "scoped",
    "partial", "noncomputable", "abbrev", "inductive", "example", "opaque", "try", "catch", "finally", "unless",
    "mut", "break", "continue", "suffices", "obtain", "true", "false",
}
# names of the generated vocabulary: a Python local of that name is renamed (`<name>_`)
CLASHING = {"X", "Y", "YE", "K", "n", "w", "aL", "aR", "b", "z", "k", "i", "pw", "t", "TWV", "RfaImp", "Rfa",
            "linFit", "expFit", "expXYFit", "expLinFit", "linExpXYFit", "constW", "Nat"}


def lit(v):
    """numeric literal as an exact rational of `K` (same convention as T1 / T3)"""
    f = Fraction(v) if not isinstance(v, float) else Fraction(repr(v))
    if f < 0:
        return f"(-{lit(-f)})"
    if f.denominator == 1:
        if f.numerator == 0:
            return "(0 : K)"
        if f.numerator == 1:
            return "(1 : K)"
        return f"(({f.numerator} : Nat) : K)"
    return f"((({f.numerator} : Nat) : K) / (({f.denominator} : Nat) : K))"


def is_num(e):
    return isinstance(e, ast.Constant) and isinstance(e.value, (int, float)) and not isinstance(e.value, bool)


# -- abstract values of the names of a method ---------------------------------------------------

class Raw:
    """a raw oversampled array: `src` is 'x' (linspace) or 'y' (piecewise constant)"""
    def __init__(self, src):
        self.src = src


class IA:
    """an IntervalArray object (identity matters: the loop must not read the array it writes)"""
    def __init__(self, src):
        self.src = src      # 'x' | 'y': whose data it holds
        self.ext = None     # None | 'lin' | 'const' | 'bad'


class Nat:
    """an integer expression: signed atoms in source order (see the module docstring)"""
    def __init__(self, terms):
        self.terms = terms  # [(+1 | -1, atom text)]

    def neg(self):
        return Nat([(-s, a) for s, a in self.terms])

    def single(self):
        return self.terms[0][1] if len(self.terms) == 1 and self.terms[0][0] > 0 else None


class Scal:
    """a scalar of K given by a Lean term"""
    def __init__(self, code):
        self.code = code


class WinList:
    def __init__(self, field):
        self.field = field  # aL | aR | bL | bR


class Marker:
    def __init__(self, what):
        self.what = what    # exp | beta | a | adaptive_smooth | gammas


def simple(code):
    return code.replace("_", "a").replace("'", "a").isalnum()


def render(nat: Nat, node=None, where=lambda n: "?"):
    """Lean `Nat` term, left-associated in source order"""
    terms = list(nat.terms)
    if not terms:
        return "0"
    if terms[0][0] < 0:
        raise Unsupported(f"integer expression starting with a negative term at {where(node)}")
    out = terms[0][1]
    for s, a in terms[1:]:
        out += (" + " if s > 0 else " - ") + a
    return out


def paren(code):
    return code if simple(code) else f"({code})"


class MethodTranslator:
    def __init__(self, spec: Spec, fn: ast.FunctionDef, fits, interval_names):
        self.spec = spec
        self.fn = fn
        self.fits = fits                      # local name -> (Lean function, takes exponent)
        self.interval_names = interval_names  # local names of IntervalArray
        self.env = {}
        self.lines = []
        self.zname = None     # Python name of the written array
        self.zcur = "z"       # Lean name of the current array
        self.nwrites = 0
        self.kvar = None
        self.outer = set()   # names bound before the main loop
        self.used = set(CLASHING)
        self.lean_names = {}
        self.frame = []

    # -- diagnostics ---------------------------------------------------------------------------
    def where(self, node):
        return f"rfa.py:{getattr(node, 'lineno', '?')}"

    def bad(self, what, node):
        return Unsupported(f"{what} at {self.where(node)}")

    def fresh(self, name):
        """Lean identifier for the Python local `name` (deterministic)"""
        if not name.isidentifier() or not name.isascii():
            raise Unsupported(f"variable name `{name}`")
        if name in self.lean_names:
            return self.lean_names[name]
        cand = name
        while cand in CLASHING or cand in LEAN_RESERVED or cand.startswith("zW") or \
                (cand in self.used and cand != name):
            cand += "_"
        self.used.add(cand)
        self.lean_names[name] = cand
        return cand

    # -- self attributes ---------------------------------------------------------------------------
    def self_attr(self, attr, node):
        sp = self.spec
        if attr == "n":
            return Nat([(1, "n")])
        if sp.fixed and attr == "a_l":
            return Nat([(1, "aL")])
        if sp.fixed and attr == "a_r":
            return Nat([(1, "aR")])
        if sp.fixed and sp.exp and attr == "b":
            return Nat([(1, "b")])
        if sp.exp and attr == "exp":
            return Marker("exp")
        if not sp.fixed and sp.exp and attr == "beta":
            return Marker("beta")
        if not sp.fixed and attr in ("a", "adaptive_smooth"):
            return Marker(attr)
        raise self.bad(f"attribute self.{attr}", node)

    def lookup(self, e):
        """abstract value of a name / `self.attr`, else None"""
        if isinstance(e, ast.Name):
            return self.env.get(e.id)
        if isinstance(e, ast.Attribute) and isinstance(e.value, ast.Name) and e.value.id == "self" \
                and "self" not in self.env:
            return self.self_attr(e.attr, e)
        return None

    # -- kinds -------------------------------------------------------------------------------------
    def kind(self, e):
        """'nat' | 'val' | None (a literal: either)"""
        if is_num(e):
            return None if isinstance(e.value, int) else "val"
        if isinstance(e, (ast.Name, ast.Attribute)):
            v = self.lookup(e)
            if isinstance(v, Nat):
                return "nat"
            if isinstance(v, Scal):
                return "val"
            raise self.bad(f"`{ast.unparse(e)}` is not a number here", e)
        if isinstance(e, ast.UnaryOp) and isinstance(e.op, (ast.USub, ast.UAdd)):
            return self.kind(e.operand)
        if isinstance(e, ast.BinOp):
            if isinstance(e.op, ast.Div):
                return "val"
            ks = {self.kind(e.left), self.kind(e.right)}
            return "val" if "val" in ks else ("nat" if "nat" in ks else None)
        if isinstance(e, ast.IfExp):
            ks = {self.kind(e.body), self.kind(e.orelse)}
            return "val" if "val" in ks else ("nat" if "nat" in ks else None)
        if isinstance(e, ast.Subscript):
            v = self.lookup(e.value)
            if isinstance(v, WinList):
                return "nat"
            if isinstance(v, IA):
                return "val"
            raise self.bad(f"subscript of `{ast.unparse(e.value)}`", e)
        if isinstance(e, ast.Call):
            return "val"
        raise self.bad(f"expression {type(e).__name__}", e)

    # -- integers ------------------------------------------------------------------------------------
    def nat(self, e) -> Nat:
        if isinstance(e, ast.Constant):
            if isinstance(e.value, int) and not isinstance(e.value, bool):
                if e.value == 0:
                    return Nat([])
                return Nat([(1 if e.value > 0 else -1, str(abs(e.value)))])
            raise self.bad("non-integer literal in an integer expression", e)
        if isinstance(e, (ast.Name, ast.Attribute)):
            v = self.lookup(e)
            if isinstance(v, Nat):
                return Nat(list(v.terms))
            raise self.bad(f"`{ast.unparse(e)}` is not an integer here", e)
        if isinstance(e, ast.UnaryOp) and isinstance(e.op, ast.USub):
            return self.nat(e.operand).neg()
        if isinstance(e, ast.UnaryOp) and isinstance(e.op, ast.UAdd):
            return self.nat(e.operand)
        if isinstance(e, ast.BinOp) and isinstance(e.op, ast.Add):
            return Nat(self.nat(e.left).terms + self.nat(e.right).terms)
        if isinstance(e, ast.BinOp) and isinstance(e.op, ast.Sub):
            return Nat(self.nat(e.left).terms + self.nat(e.right).neg().terms)
        if isinstance(e, ast.BinOp) and isinstance(e.op, ast.Mult):
            a, b = self.nat(e.left), self.nat(e.right)
            if not a.terms or not b.terms:
                return Nat([])
            if a.single() is None or b.single() is None:
                raise self.bad("product of sums in an integer expression", e)
            return Nat([(1, f"{paren(a.single())} * {paren(b.single())}")])
        if isinstance(e, ast.Subscript):
            v = self.lookup(e.value)
            if not isinstance(v, WinList):
                raise self.bad(f"`{ast.unparse(e.value)}` is not a list of windows", e)
            if isinstance(e.slice, (ast.Slice, ast.Tuple)):
                raise self.bad("window index", e)
            idx = render(self.nat(e.slice), e, self.where)
            return Nat([(1, f"w.{v.field} {paren(idx)}")])
        if isinstance(e, ast.IfExp):
            c = self.cond(e.test)
            a, b = render(self.nat(e.body), e, self.where), render(self.nat(e.orelse), e, self.where)
            return Nat([(1, f"(if {c} then {a} else {b})")])
        raise self.bad(f"integer expression {type(e).__name__}", e)

    def nat_code(self, e):
        return render(self.nat(e), e, self.where)

    # -- tests -----------------------------------------------------------------------------------------
    def cond(self, e):
        """Lean proposition (decidable); compound operands are parenthesised"""
        def operand(x):
            c = self.cond(x)
            return f"({c})" if isinstance(x, ast.BoolOp) else c
        if isinstance(e, ast.UnaryOp) and isinstance(e.op, ast.Not):
            return f"¬ ({self.cond(e.operand)})"
        if isinstance(e, ast.BoolOp):
            op = " ∧ " if isinstance(e.op, ast.And) else " ∨ "
            return op.join(operand(v) for v in e.values)
        if isinstance(e, ast.Compare) and len(e.ops) == 1:
            ops = {ast.Eq: "=", ast.NotEq: "≠", ast.Lt: "<", ast.LtE: "≤", ast.Gt: ">", ast.GtE: "≥"}
            if type(e.ops[0]) not in ops:
                raise self.bad("comparison", e)
            l, r = e.left, e.comparators[0]
            if "val" in (self.kind(l), self.kind(r)):
                return f"{self.val(l)} {ops[type(e.ops[0])]} {self.val(r)}"
            return f"{self.nat_code(l)} {ops[type(e.ops[0])]} {self.nat_code(r)}"
        raise self.bad("test", e)

    # -- scalars ---------------------------------------------------------------------------------------
    def flat(self, idx, node):
        """flat index of `v[row, col]` / `v[e]`: (Nat, column is zero, row Nat or None)"""
        if isinstance(idx, ast.Slice):
            raise self.bad("slice", node)
        if isinstance(idx, ast.Tuple):
            if len(idx.elts) != 2 or any(isinstance(x, (ast.Slice, ast.Starred)) for x in idx.elts):
                raise self.bad("index", node)
            row, col = self.nat(idx.elts[0]), self.nat(idx.elts[1])
            if not row.terms:
                return col, not col.terms, row
            r = row.single()
            atom = f"{r} * n" if r is not None and simple(r) else f"({render(row, node, self.where)}) * n"
            return Nat([(1, atom)] + col.terms), not col.terms, row
        return self.nat(idx), False, None

    def subscript(self, e):
        v = self.lookup(e.value)
        if isinstance(v, WinList):
            raise self.bad("a window used as a scalar", e)
        if not isinstance(v, IA):
            raise self.bad(f"subscript of `{ast.unparse(e.value)}`", e)
        if isinstance(e.value, ast.Name) and e.value.id == self.zname or v is self.env.get(self.zname):
            raise self.bad("the loop reads the array it writes", e)
        if v.ext not in ("lin", "const"):
            raise self.bad(f"`{ast.unparse(e.value)}` is not extended on both sides", e)
        flat, col0, row = self.flat(e.slice, e)
        if v.src == "x" and v.ext == "lin":
            return f"X {paren(render(flat, e, self.where))}"
        if v.src == "y" and v.ext == "const":
            if row is not None and col0:
                return f"Y {paren(render(row, e, self.where))}"
            return f"YE {paren(render(flat, e, self.where))}"
        raise self.bad(f"`{ast.unparse(e.value)}` is neither the extended x nor the extended y", e)

    def exponent(self, e):
        """the `alpha` argument of a shape function -> Lean term of type K → K"""
        if e is None:
            k = DEFAULT_EXPONENT
        else:
            v = self.lookup(e) if isinstance(e, (ast.Name, ast.Attribute)) else None
            if isinstance(v, Marker) and v.what == "exp":
                return "pw"
            k = None
            if is_num(e) and e.value == int(e.value):
                k = int(e.value)
            if k is None or not 1 <= k <= 8:
                raise self.bad("exponent argument", e)
        return "(fun t => " + " * ".join(["t"] * k) + ")"

    def point(self, e):
        if not isinstance(e, ast.Tuple) or len(e.elts) != 2:
            raise self.bad("a point that is not a literal pair", e)
        return f"({self.val(e.elts[0])}, {self.val(e.elts[1])})"

    def fit(self, e):
        model, takes_exp = self.fits[e.func.id]
        names = ["x", "xy_0", "xy_1", "alpha"]
        if len(e.args) > 4 or any(isinstance(a, ast.Starred) for a in e.args):
            raise self.bad("argument count", e)
        given = dict(zip(names, e.args))
        for kw in e.keywords:
            if kw.arg not in names or kw.arg in given:
                raise self.bad(f"keyword argument `{kw.arg}`", e)
            given[kw.arg] = kw.value
        if not all(k in given for k in names[:3]):
            raise self.bad("argument count", e)
        if "alpha" in given and not takes_exp:
            raise self.bad(f"{e.func.id} called with an exponent", e)
        pw = f" {self.exponent(given.get('alpha'))}" if takes_exp else ""
        return f"{model}{pw} ({self.val(given['x'])}) {self.point(given['xy_0'])} {self.point(given['xy_1'])}"

    def val(self, e) -> str:
        if is_num(e):
            return lit(e.value)
        if isinstance(e, (ast.Name, ast.Attribute)):
            v = self.lookup(e)
            if isinstance(v, Scal):
                return v.code
            if isinstance(v, Nat):
                return f"((({render(v, e, self.where)} : Nat)) : K)"
            raise self.bad(f"`{ast.unparse(e)}` is not a scalar here", e)
        if isinstance(e, ast.UnaryOp) and isinstance(e.op, ast.USub):
            if is_num(e.operand):
                return lit(-e.operand.value) if e.operand.value != 0 else lit(0)
            return f"(-{paren(self.val(e.operand))})"
        if isinstance(e, ast.UnaryOp) and isinstance(e.op, ast.UAdd):
            return self.val(e.operand)
        if isinstance(e, ast.BinOp):
            ops = {ast.Add: "+", ast.Sub: "-", ast.Mult: "*", ast.Div: "/"}
            if type(e.op) not in ops:
                raise self.bad(f"operator {type(e.op).__name__}", e)
            if self.kind(e) != "val":
                return f"((({self.nat_code(e)} : Nat)) : K)"
            return f"({self.val(e.left)} {ops[type(e.op)]} {self.val(e.right)})"
        if isinstance(e, ast.Subscript):
            if self.kind(e) == "nat":
                return f"((({self.nat_code(e)} : Nat)) : K)"
            return self.subscript(e)
        if isinstance(e, ast.IfExp):
            return f"(if {self.cond(e.test)} then {self.val(e.body)} else {self.val(e.orelse)})"
        if isinstance(e, ast.Call):
            if isinstance(e.func, ast.Name) and e.func.id in self.fits and e.func.id not in self.env:
                return self.fit(e)
            raise self.bad(f"call of `{ast.unparse(e.func)}`", e)
        raise self.bad(f"expression {type(e).__name__}", e)

    def value(self, e):
        """abstract value of the right-hand side of a scalar / integer assignment"""
        if self.kind(e) == "val":
            return Scal(self.val(e))
        return self.nat(e)

    # -- loop body -------------------------------------------------------------------------------------
    @staticmethod
    def skip(st):
        return isinstance(st, ast.Pass) or \
            (isinstance(st, ast.Expr) and isinstance(st.value, ast.Constant) and isinstance(st.value.value, str))

    def name_target(self, st):
        if isinstance(st, ast.Assign) and len(st.targets) == 1 and isinstance(st.targets[0], ast.Name):
            return st.targets[0].id, st.value
        if isinstance(st, ast.AnnAssign) and isinstance(st.target, ast.Name) and st.value is not None:
            return st.target.id, st.value
        return None

    def check_assignable(self, name, node):
        old = self.env.get(name)
        if old is not None and not isinstance(old, (Nat, Scal)):
            raise self.bad(f"assignment to `{name}` inside the loop", node)
        if name == self.kvar or name == "self":
            raise self.bad(f"assignment to `{name}` inside the loop", node)
        if name in self.outer:
            raise self.bad(f"`{name}` is set before the loop and assigned inside it (loop-carried value)", node)

    def branch(self, stmts):
        """statements of a branch: scalar / integer assignments and nested ifs; returns name -> value
        (inlined terms); the environment is restored"""
        saved = dict(self.env)
        out = {}
        try:
            for st in stmts:
                if self.skip(st):
                    continue
                nt = self.name_target(st)
                if nt is not None:
                    self.check_assignable(nt[0], st)
                    v = self.value(nt[1])
                    out[nt[0]] = v
                    self.env[nt[0]] = v
                    continue
                if isinstance(st, ast.If):
                    for name, v in self.if_values(st).items():
                        out[name] = v
                        self.env[name] = v
                    continue
                raise self.bad(f"statement {type(st).__name__} inside a branch", st)
        finally:
            self.env = saved
        return out

    def if_values(self, st):
        c = self.cond(st.test)
        a, b = self.branch(st.body), self.branch(st.orelse)
        out = {}
        for name in list(a) + [x for x in b if x not in a]:
            va = a.get(name, self.env.get(name))
            vb = b.get(name, self.env.get(name))
            if not isinstance(va, (Nat, Scal)) or not isinstance(vb, (Nat, Scal)):
                continue  # a temporary of one branch: not defined after the `if` (a later use is rejected)
            if isinstance(va, Nat) and isinstance(vb, Nat):
                out[name] = Nat([(1, f"(if {c} then {render(va, st, self.where)} else "
                                     f"{render(vb, st, self.where)})")])
            else:
                ca = va.code if isinstance(va, Scal) else f"((({render(va, st, self.where)} : Nat)) : K)"
                cb = vb.code if isinstance(vb, Scal) else f"((({render(vb, st, self.where)} : Nat)) : K)"
                out[name] = Scal(f"(if {c} then {ca}\n    else {cb})")
        return out

    def bind(self, name, v, node):
        self.check_assignable(name, node)
        if isinstance(v, Nat):
            self.env[name] = v  # integers are inlined
            return
        ln = self.fresh(name)
        self.lines.append(f"  let {ln} := {v.code}")
        self.env[name] = Scal(ln)

    def inner_loop(self, st):
        if st.orelse or not isinstance(st.target, ast.Name):
            raise self.bad("inner loop", st)
        it = st.iter
        if not (isinstance(it, ast.Call) and isinstance(it.func, ast.Name) and it.func.id == "range"
                and "range" not in self.env and not it.keywords and len(it.args) in (1, 2)):
            raise self.bad("inner loop that is not `for i in range([lo,] hi)`", st)
        lo = "0" if len(it.args) == 1 else self.nat_code(it.args[0])
        hi = self.nat_code(it.args[-1])
        ivar = st.target.id
        self.check_assignable(ivar, st)
        if ivar in self.env:
            raise self.bad(f"inner loop variable `{ivar}` shadows a local", st)
        saved = dict(self.env)
        try:
            self.env[ivar] = Nat([(1, "i")])
            body = [s for s in st.body if not self.skip(s)]
            if not body:
                raise self.bad("empty inner loop", st)
            for s in body[:-1]:
                nt = self.name_target(s)
                if nt is None:
                    raise self.bad(f"statement {type(s).__name__} inside an inner loop", s)
                if nt[0] in saved or nt[0] == ivar:
                    raise self.bad(f"inner loop assigns the outer local `{nt[0]}`", s)
                self.env[nt[0]] = self.value(nt[1])
            last = body[-1]
            if not (isinstance(last, ast.Assign) and len(last.targets) == 1
                    and isinstance(last.targets[0], ast.Subscript) and isinstance(last.targets[0].value, ast.Name)
                    and last.targets[0].value.id == self.zname):
                raise self.bad("inner loop does not end with one assignment `z[k, i] = ...`", last)
            tgt = last.targets[0]
            if not isinstance(tgt.slice, ast.Tuple):
                raise self.bad("flat store index", last)
            flat, _, _ = self.flat(tgt.slice, last)
            if any(s < 0 for s, _ in flat.terms) or [a for _, a in flat.terms].count("i") != 1:
                raise self.bad("store index is not `z[r, i + c]`", last)
            base = Nat([t for t in flat.terms if t[1] != "i"])
            if any(re.search(r"\bi\b", a) for _, a in base.terms):
                raise self.bad("store index is not `z[r, i + c]`", last)
            rhs = self.val(last.value)
        finally:
            self.env = saved
        self.nwrites += 1
        new = f"zW{self.nwrites}"
        self.lines.append(f"  let {new} := RfaImp.writeRange {self.zcur} {paren(render(base, last, self.where))} "
                          f"{paren(lo)} {paren(hi)}")
        self.lines.append(f"    (fun i => {rhs})")
        self.zcur = new

    def loop_body(self, stmts):
        for st in stmts:
            if self.skip(st):
                continue
            nt = self.name_target(st)
            if nt is not None:
                self.bind(nt[0], self.value(nt[1]), st)
                continue
            if isinstance(st, ast.If):
                for name, v in self.if_values(st).items():
                    self.bind(name, v, st)
                continue
            if isinstance(st, ast.For):
                self.inner_loop(st)
                continue
            if isinstance(st, ast.Assign) and len(st.targets) == 1 and isinstance(st.targets[0], ast.Subscript) \
                    and isinstance(st.targets[0].value, ast.Name) and st.targets[0].value.id == self.zname:
                self.single_store(st)
                continue
            raise self.bad(f"statement {type(st).__name__} in the loop body", st)

    def single_store(self, st):
        """`z[r, c] = v` / `z[e] = v` outside an inner loop -> `RfaImp.setAt z (r * n + c) v`"""
        flat, _, _ = self.flat(st.targets[0].slice, st)
        self.nwrites += 1
        new = f"zW{self.nwrites}"
        self.lines.append(f"  let {new} := RfaImp.setAt {self.zcur} {paren(render(flat, st, self.where))} "
                          f"({self.val(st.value)})")
        self.zcur = new

    # -- frame -----------------------------------------------------------------------------------------
    def is_self_call(self, e, name):
        return isinstance(e, ast.Call) and isinstance(e.func, ast.Attribute) and e.func.attr == name \
            and isinstance(e.func.value, ast.Name) and e.func.value.id == "self" and not e.args and not e.keywords

    def array_arg(self, e):
        """the raw data an IntervalArray / a copy is built from: 'x' | 'y' | None"""
        v = self.lookup(e) if isinstance(e, ast.Name) else None
        if isinstance(v, Raw):
            return v.src
        if isinstance(e, ast.Attribute) and e.attr == "array" and isinstance(e.value, ast.Name):
            v = self.env.get(e.value.id)
            if isinstance(v, IA) and v.ext is None:
                return v.src
        return None

    def frame_assign(self, st):
        tgt, value = st.targets[0], st.value
        # x, y = self._initial_oversample()
        if isinstance(tgt, ast.Tuple) and self.is_self_call(value, "_initial_oversample"):
            if len(tgt.elts) != 2 or not all(isinstance(t, ast.Name) for t in tgt.elts):
                raise self.bad("unpacking of _initial_oversample()", st)
            self.env[tgt.elts[0].id] = Raw("x")
            self.env[tgt.elts[1].id] = Raw("y")
            return
        # a_ls, a_rs, gammas = ...get_adaptive_transition_points(x, y, self.a, self.adaptive_smooth)
        if isinstance(tgt, ast.Tuple) and isinstance(value, ast.Call) and isinstance(value.func, ast.Attribute) \
                and value.func.attr == "get_adaptive_transition_points":
            if self.spec.fixed:
                raise self.bad("adaptive transition points in a fixed strategy", st)
            owner = value.func.value
            ok_owner = isinstance(owner, ast.Name) and (
                owner.id == "LinearAdaptiveRFA" or (owner.id == "self" and self.spec.cls == "LinearAdaptiveRFA"))
            if not ok_owner or value.keywords or len(value.args) != 4 or len(tgt.elts) != 3 \
                    or not all(isinstance(t, ast.Name) for t in tgt.elts):
                raise self.bad("call of get_adaptive_transition_points", st)
            ax, ay, aa, asm = (self.lookup(a) if isinstance(a, (ast.Name, ast.Attribute)) else None
                               for a in value.args)
            if not (isinstance(ax, IA) and ax.src == "x" and ax.ext == "lin"):
                raise self.bad("get_adaptive_transition_points: first argument is not the extended x", st)
            if not (isinstance(ay, IA) and ay.src == "y" and ay.ext == "const"):
                raise self.bad("get_adaptive_transition_points: second argument is not the extended y", st)
            if not (isinstance(aa, Marker) and aa.what == "a" and isinstance(asm, Marker)
                    and asm.what == "adaptive_smooth"):
                raise self.bad("get_adaptive_transition_points: arguments are not (x, y, self.a, "
                               "self.adaptive_smooth)", st)
            self.env[tgt.elts[0].id] = WinList("aL")
            self.env[tgt.elts[1].id] = WinList("aR")
            self.env[tgt.elts[2].id] = Marker("gammas")
            return
        if not isinstance(tgt, ast.Name):
            raise self.bad("assignment target in the frame", st)
        name = tgt.id
        # b_ls = [int(beta * a_l) for a_l in a_ls]
        if isinstance(value, ast.ListComp):
            if len(value.generators) != 1:
                raise self.bad("list comprehension", st)
            g = value.generators[0]
            src = self.lookup(g.iter) if isinstance(g.iter, ast.Name) else None
            if g.ifs or g.is_async or not isinstance(g.target, ast.Name) or not isinstance(src, WinList) \
                    or src.field not in ("aL", "aR"):
                raise self.bad("list comprehension that is not over a_ls / a_rs", st)
            elt = value.elt
            ok = isinstance(elt, ast.Call) and isinstance(elt.func, ast.Name) and elt.func.id == "int" \
                and "int" not in self.env and len(elt.args) == 1 and not elt.keywords \
                and isinstance(elt.args[0], ast.BinOp) and isinstance(elt.args[0].op, ast.Mult)
            if ok:
                l, r = elt.args[0].left, elt.args[0].right
                if isinstance(l, ast.Name) and l.id == g.target.id:
                    l, r = r, l
                lv = self.lookup(l) if isinstance(l, (ast.Name, ast.Attribute)) and not (
                    isinstance(l, ast.Name) and l.id == g.target.id) else None
                ok = isinstance(lv, Marker) and lv.what == "beta" and isinstance(r, ast.Name) and r.id == g.target.id
            if not ok:
                raise self.bad("window list that is not `[int(beta * v) for v in ...]`", st)
            self.env[name] = WinList("bL" if src.field == "aL" else "bR")
            return
        # z = np.array(y, copy=True) / np.copy(y) / y.copy()
        if isinstance(value, ast.Call) and isinstance(value.func, ast.Attribute):
            f = value.func
            if isinstance(f.value, ast.Name) and f.value.id in ("np", "numpy") and f.value.id not in self.env \
                    and f.attr in ("array", "copy") and len(value.args) == 1 \
                    and all(kw.arg == "copy" and isinstance(kw.value, ast.Constant) and kw.value.value is True
                            for kw in value.keywords):
                src = self.array_arg(value.args[0])
                if src is None:
                    raise self.bad("copy of something that is not a raw array", st)
                self.env[name] = Raw(src)
                return
            if f.attr == "copy" and not value.args and not value.keywords and self.array_arg(f.value) is not None:
                self.env[name] = Raw(self.array_arg(f.value))
                return
        # v = IntervalArray(arr, n)
        if isinstance(value, ast.Call) and isinstance(value.func, ast.Name) and value.func.id in self.interval_names \
                and value.func.id not in self.env:
            given = dict(zip(["a", "n"], value.args))
            for kw in value.keywords:
                if kw.arg not in ("a", "n") or kw.arg in given:
                    raise self.bad("IntervalArray arguments", st)
                given[kw.arg] = kw.value
            if len(value.args) > 2 or "a" not in given or "n" not in given:
                raise self.bad("IntervalArray arguments", st)
            src = self.array_arg(given["a"])
            if src is None:
                raise self.bad("IntervalArray of something that is not a raw oversampled array", st)
            if self.kind(given["n"]) != "nat" or self.nat(given["n"]).single() != "n":
                raise self.bad("IntervalArray interval length is not n", st)
            self.env[name] = IA(src)
            return
        # aliases and integers
        if isinstance(value, (ast.Name, ast.Attribute)):
            v = self.lookup(value)
            if v is None:
                raise self.bad(f"unknown value `{ast.unparse(value)}`", st)
            self.env[name] = v
            return
        self.env[name] = self.nat(value)

    def frame_extend(self, st):
        call = st.value
        f = call.func
        v = self.env.get(f.value.id)
        if not isinstance(v, IA):
            raise self.bad(f"`{f.value.id}` is not an interval array", st)
        given = dict(zip(["direction"], call.args))
        for kw in call.keywords:
            if kw.arg != "direction" or kw.arg in given:
                raise self.bad(f"{f.attr} arguments", st)
            given[kw.arg] = kw.value
        if len(call.args) > 1:
            raise self.bad(f"{f.attr} arguments", st)
        d = given.get("direction")
        both = d is None or (isinstance(d, ast.Constant) and d.value == "both")
        if v.ext is not None or not both:
            v.ext = "bad"
        else:
            v.ext = "lin" if f.attr == "extend_linspace" else "const"

    def k_loop(self, st):
        it = st.iter
        ok = isinstance(st.target, ast.Name) and not st.orelse and isinstance(it, ast.Call) \
            and isinstance(it.func, ast.Name) and it.func.id == "range" and "range" not in self.env \
            and not it.keywords and len(it.args) == 2 and is_num(it.args[0]) and it.args[0].value == 1 \
            and type(it.args[0].value) is int
        if ok:
            hi = it.args[1]
            ok = isinstance(hi, ast.BinOp) and isinstance(hi.op, ast.Sub) and is_num(hi.right) and hi.right.value == 1 \
                and type(hi.right.value) is int and isinstance(hi.left, ast.Call) and not hi.left.args \
                and not hi.left.keywords and isinstance(hi.left.func, ast.Attribute) \
                and hi.left.func.attr == "nr_of_full_intervals" and isinstance(hi.left.func.value, ast.Name)
        if not ok:
            raise self.bad("main loop is not `for k in range(1, x.nr_of_full_intervals() - 1)`", st)
        over = self.env.get(it.args[1].left.func.value.id)
        if not (isinstance(over, IA) and over.ext in ("lin", "const")):
            raise self.bad("main loop range is not taken from an array extended on both sides", st)
        # the array the loop writes
        stores = {t.value.id for s in ast.walk(st) if isinstance(s, (ast.Assign, ast.AugAssign, ast.AnnAssign))
                  for t in (s.targets if isinstance(s, ast.Assign) else [s.target])
                  if isinstance(t, ast.Subscript) and isinstance(t.value, ast.Name)}
        if len(stores) > 1:
            raise self.bad("the loop writes more than one array", st)
        if stores:
            self.zname = next(iter(stores))
            zv = self.env.get(self.zname)
            if not isinstance(zv, IA):
                raise self.bad(f"`{self.zname}` is not an interval array", st)
            if not (zv.src == "y" and zv.ext == "const"):
                raise self.bad(f"`{self.zname}` is not y's data extended constant on both sides", st)
        self.kvar = st.target.id
        if self.kvar in self.env:
            raise self.bad(f"loop variable `{self.kvar}` shadows a local", st)
        self.outer = set(self.env)
        self.env[self.kvar] = Nat([(1, "k")])
        self.loop_body(st.body)
        del self.env[self.kvar]
        # scalars of the loop body are dead afterwards (the frame only allows the return)
        self.frame.append("z from y extend_constant both" if stores else "no store")

    def check_return(self, st):
        v = st.value
        if not (isinstance(v, ast.Tuple) and len(v.elts) == 2):
            raise self.bad("return is not `x.array[n:-n], z.array[n:-n]`", st)
        objs = []
        for e in v.elts:
            ok = isinstance(e, ast.Subscript) and isinstance(e.slice, ast.Slice) and e.slice.step is None \
                and e.slice.lower is not None and e.slice.upper is not None \
                and isinstance(e.value, ast.Attribute) and e.value.attr == "array" and isinstance(e.value.value, ast.Name)
            if ok:
                lo, up = e.slice.lower, e.slice.upper
                ok = self.kind(lo) == "nat" and self.nat(lo).single() == "n" and isinstance(up, ast.UnaryOp) \
                    and isinstance(up.op, ast.USub) and self.kind(up.operand) == "nat" \
                    and self.nat(up.operand).single() == "n"
            if not ok:
                raise self.bad("return is not `x.array[n:-n], z.array[n:-n]`", st)
            objs.append(self.env.get(e.value.value.id))
        xo, zo = objs
        if not (isinstance(xo, IA) and xo.src == "x" and xo.ext == "lin"):
            raise self.bad("first returned array is not x extended linspace on both sides", st)
        if self.zname is None or zo is not self.env.get(self.zname):
            raise self.bad("second returned array is not the array the loop writes", st)

    def translate(self):
        a = self.fn.args
        if a.vararg or a.kwarg or a.kwonlyargs or a.posonlyargs or [p.arg for p in a.args] != ["self"] \
                or self.fn.decorator_list:
            raise Unsupported(f"signature of {self.spec.method} at {self.where(self.fn)}")
        state = "pre"
        for st in self.fn.body:
            if self.skip(st):
                continue
            if state == "done":
                raise self.bad("statement after the return", st)
            if isinstance(st, ast.Return) and st.value is not None:
                if state != "post":
                    raise self.bad("return before the main loop", st)
                self.check_return(st)
                state = "done"
                continue
            if state == "post":
                raise self.bad(f"statement {type(st).__name__} between the main loop and the return", st)
            if isinstance(st, ast.For):
                self.k_loop(st)
                state = "post"
                continue
            if isinstance(st, ast.Assign) and len(st.targets) == 1:
                self.frame_assign(st)
                continue
            if isinstance(st, ast.Expr) and isinstance(st.value, ast.Call) and isinstance(st.value.func, ast.Attribute) \
                    and st.value.func.attr in ("extend_linspace", "extend_constant") \
                    and isinstance(st.value.func.value, ast.Name):
                self.frame_extend(st)
                continue
            raise self.bad(f"statement {type(st).__name__} in the frame", st)
        if state != "done":
            raise Unsupported(f"{self.spec.method}: no main loop followed by a return")
        head = f"def {self.spec.gen} {self.spec.binders} : Nat → K :="
        return "\n".join([head] + self.lines + [f"  {self.zcur}"])


# ---------------------------------------------------------------------------------------------
# driver
# ---------------------------------------------------------------------------------------------

HEADER = [
    "import TWV.Model.RfaImp", "",
    "/-! GENERATED by harness/t4_rfaloops.py from src/traffic_weaver/rfa.py — do not edit.", "",
    "One iteration of the main loop `for k in range(1, x.nr_of_full_intervals() - 1)` of the four window",
    "strategies, statement by statement.  `X`, `YE` are the extended arrays, `Y k` is `y[k, 0]`; the fixed",
    "strategies take their (constant) windows as parameters.  `TWV/Tie/RfaLoops.lean` ties these to the",
    "hand-written `RfaImp.linIter` / `RfaImp.expIter`. -/", "",
    "set_option linter.unusedVariables false", "",
    "namespace TWV", "namespace Generated.RfaLoops", "",
    "variable {K : Type} [Add K] [Sub K] [Mul K] [Div K] [Neg K] [Zero K] [One K] [NatCast K]",
    "  [LT K] [LE K] [DecidableLT K] [DecidableLE K] [DecidableEq K]", "",
    "/-- the windows of a fixed strategy: the same `a_l`, `a_r`, `b` in every interval -/",
    "def constW (aL aR b : Nat) : Rfa.Windows :=",
    "  { aL := fun _ => aL, aR := fun _ => aR, bL := fun _ => b, bR := fun _ => b }", "",
]


def module_imports(tree):
    """(shape functions, IntervalArray names) as rfa.py can call them by bare name"""
    fits, intervals = {}, set()
    for node in tree.body:
        if isinstance(node, ast.ImportFrom) and node.module is not None:
            mod = node.module.split(".")[-1]
            for a in node.names:
                local = a.asname or a.name
                if mod == "funfit" and a.name in FITS:
                    fits[local] = FITS[a.name]
                elif mod == "interval" and a.name == "IntervalArray":
                    intervals.add(local)
                else:
                    fits.pop(local, None)
                    intervals.discard(local)
        elif isinstance(node, (ast.FunctionDef, ast.AsyncFunctionDef, ast.ClassDef)):
            fits.pop(node.name, None)
            intervals.discard(node.name)
        elif isinstance(node, ast.Import):
            for a in node.names:
                fits.pop(a.asname or a.name.split(".")[0], None)
                intervals.discard(a.asname or a.name.split(".")[0])
        elif isinstance(node, (ast.Assign, ast.AnnAssign, ast.AugAssign)):
            for t in ast.walk(node):
                if isinstance(t, ast.Name) and isinstance(t.ctx, ast.Store):
                    fits.pop(t.id, None)
                    intervals.discard(t.id)
    return fits, intervals


def generate(text=None):
    """text: the source of rfa.py (default: /repo's working tree); returns (Lean text, notes, translated)"""
    broken = None
    tree = None
    if text is None:
        try:
            text = SRC.read_text()
        except OSError:
            broken = "source file is missing"
    if broken is None:
        try:
            tree = ast.parse(text)
        except SyntaxError as e:
            broken = f"syntax error at rfa.py:{e.lineno}"
    out = list(HEADER)
    notes, done = [], []
    fits, intervals = module_imports(tree) if tree is not None else ({}, set())
    for spec in SPECS:
        reason = broken
        if reason is None:
            classes = [n for n in tree.body if isinstance(n, ast.ClassDef) and n.name == spec.cls]
            fns = [m for c in classes for m in c.body if isinstance(m, ast.FunctionDef) and m.name == "rfa"]
            if len(classes) != 1 or len(fns) != 1:
                reason = f"{spec.method} is not defined exactly once"
            else:
                try:
                    out.append(MethodTranslator(spec, fns[0], fits, intervals).translate())
                    done.append(spec.cls)
                except Unsupported as e:
                    reason = str(e)
                except RecursionError:
                    reason = "expression too deep"
        if reason is not None:
            notes.append(f"UNSUPPORTED {spec.method}: {reason}")
            out.append(f"/- T4 cannot translate `{spec.method}` ({reason}); the tie falls back to the "
                       f"correspondence. -/\ndef {spec.gen} {spec.binders} : Nat → K :=\n  {spec.fallback}")
        out.append("")
    out += ["end Generated.RfaLoops", "end TWV", ""]
    return "\n".join(out), notes, done


FRAME_NOTE = ("frame checked: x linspace/both, z from y constant/both, range(1, nr_of_full_intervals() - 1), "
              "cut [n:-n]")


def regenerate(text=None, out=None):
    lean, notes, done = generate(text)
    out = Path(out) if out is not None else OUT
    out.parent.mkdir(parents=True, exist_ok=True)
    changed = (not out.exists()) or out.read_text() != lean
    if changed:
        out.write_text(lean)
    if notes:
        note = "; ".join(notes)
        if done:
            note += f"; translated with {FRAME_NOTE}: {', '.join(done)}"
    else:
        note = f"all {len(SPECS)} loop bodies translated, {FRAME_NOTE}"
    return f"{note} ({'rewritten' if changed else 'unchanged'})"


def main(argv):
    """python -m harness.t4_rfaloops [--src FILE] [--stdout]   (FILE: a text of rfa.py)"""
    src, to_stdout = None, False
    it = iter(argv)
    for a in it:
        if a == "--src":
            src = Path(next(it)).read_text()
        elif a == "--stdout":
            to_stdout = True
        else:
            print(main.__doc__)
            return 2
    if to_stdout:
        lean, notes, _ = generate(src)
        print(lean)
        for n in notes:
            print("--", n)
    else:
        print(regenerate(src))
    return 0


if __name__ == "__main__":
    sys.exit(main(sys.argv[1:]))
