"""Translator T11: the control structure of match.py (Python AST) -> lean/TWV/Generated/MatchFlow.lean

Sources (working tree of /repo unless a directory is handed in with --src-dir; a file missing there is read
from /repo):
  sorted_array_utils.py   sum_over_indices                      -> Gen.sum_over_indices
  match.py                _interval_integral_matching_stretch   -> Gen.interval_stretch
                          integral_matching_reference_stretch   -> Gen.fixed_points_<which> (everything before the
                                                                   reference integrals) and Gen.match_<which> (all),
                          one pair per way of designating the fixed points:
                            searched   neither fixed_points_in_x nor fixed_points_indices_in_x given
                            positions  fixed_points_in_x given
                            indices    fixed_points_indices_in_x given
                            both       both given (the indices win, both sizes are validated)
                          and Gen.match_defaults (the default strings / exponent of the signature)

The arithmetic *inside* `_integral_matching_stretch` and the integral rules are T3's (`t3_vector.py`); here the
kernel is a vocabulary call `MV.kernel` whose argument binding is checked against the kernel's own signature
(positional / keyword, defaults: `alpha` handed over in `dx`'s position leaves the exponent at its default `1.0`,
which is emitted as the identity power function and fails the tie).

Target vocabulary: `TWV.MV` (lean/TWV/Model/MatchVocab.lean), `TWV.Np.slice`, `Vec.sum`, `uniqueK`, `uniqueN`,
`whereIsin`, `takeK`, `Search.find`.  The tie `TWV/Tie/MatchFlow.lean` proves the generated definitions equal to
`sumOverIndices`, `loop` / `loopA` on `windows`, `fixedPoints`, and in agreement with `matchRef`.

Kinds of sub-expressions
  S real (`K`)   V 1-D real array as `Vec K`   LK real array as `List K`   LN index array (`List Nat`)
  LI result of the search (`List Int`)   N count (`Nat`)   STR string   EXP the exponent `alpha` (only handed on)
  NONE a parameter that is `None` in this specialisation (every `is None` test is decided statically)

Supported subset
  statements   docstring, `pass`, `name = expr`, `a, b = e1, e2`, `v[lo:hi] = <array>`, `return expr`,
               `if` on `is None` / `is not None` tests (and / or / not of them): only the live branch is translated;
               `if <comparison of counts>: raise <Error>(..)` -> `if .. then throw ..`;
               `if <pure test>: warnings.warn(..)` and a bare `warnings.warn(..)`: no effect in the model, skipped;
               `for a, b[, c] in zip(l1, l2[, l3]):` whose body only assigns and carries exactly one array:
               `List.foldlM` in `Except Err`
  expressions  names, literals, `+` `*` on counts, + - * / on reals, `a if <static test> else b`,
               `np.asarray / np.array / np.asanyarray (e[, dtype=..])` (identity), `len(e)`, `np.unique(e)`,
               `e.take(i)` / `np.take(e, i)`, `np.where(np.isin(a, b))[0]` (also `np.nonzero`, `np.flatnonzero`,
               `np.in1d`), `np.arange(n)`, `v[lo:hi]`, `l[lo:hi]` (no step; literal or count bounds),
               `v.sum()` / `np.sum(v)`, `[elt for a, b in zip(l1, l2)]`,
               calls of `find_closest_element_indices_to_values`, `integral`, `sum_over_indices`,
               `_interval_integral_matching_stretch`, `_integral_matching_stretch`, bound against the callee's
               signature as found in the source
Anything else: the definition is emitted as an alias for which the tie holds trivially, with a note
`UNSUPPORTED <fn>: <reason>`; the tie for it is then the differential correspondence only.
Out of scope: the optional final spline smoothing (`s=`): only the `s is None` specialisation is translated.
"""
from __future__ import annotations

import ast
import sys
from fractions import Fraction
from pathlib import Path

from .core import LEAN, REPO
from .t3_vector import Unsupported
from .t3_vector import ident as _ident3

OUT = LEAN / "TWV" / "Generated" / "MatchFlow.lean"
SRC_DIR = REPO / "src" / "traffic_weaver"
FILES = ("match.py", "sorted_array_utils.py")
REQUIRED = False

S, V, LK, LN, LI, N, STR, EXP, NONE, DEAD = "S", "V", "LK", "LN", "LI", "N", "STR", "EXP", "NONE", "DEAD"
NP = ("np", "numpy")
CLASH = {"MV", "Np", "Search", "Err", "FixedPoints", "fp", "st", "t", "uniqueK", "uniqueN", "whereIsin", "takeK",
         "windows", "loop"}
ERRORS = {"ValueError": "valueError", "IndexError": "indexError", "TypeError": "typeError",
          "AttributeError": "attributeError", "StopIteration": "stopIteration"}
ELEM = {LK: S, LN: N, V: S}
LIST_OF = {S: LK, N: LN}


def ident(name):
    if name in CLASH or name.startswith("tmp_"):
        raise Unsupported(f"variable name `{name}` clashes with the generated vocabulary")
    return _ident3(name)


def lit(v):
    if isinstance(v, bool):
        raise Unsupported("bool literal used as a number")
    f = Fraction(v) if not isinstance(v, float) else Fraction(repr(v))
    if f < 0:
        return f"(-{lit(-f)})"
    if f.denominator == 1:
        return {0: "(0 : K)", 1: "(1 : K)"}.get(f.numerator, f"(({f.numerator} : Nat) : K)")
    return f"((({f.numerator} : Nat) : K) / (({f.denominator} : Nat) : K))"


def strlit(s):
    if not all(c.isalnum() or c in "_- " for c in s):
        raise Unsupported("string literal with unusual characters")
    return f'"{s}"'


class Val:
    def __init__(self, kind, code=None, literal=None):
        self.kind, self.code, self.literal = kind, code, literal


def is_np(e, names):
    return (isinstance(e, ast.Attribute) and isinstance(e.value, ast.Name) and e.value.id in NP
            and e.attr in names)


def signature(fn):
    """[(name, default-ast | None)] of a plain `def`"""
    a = fn.args
    if a.vararg or a.kwarg or a.kwonlyargs or a.posonlyargs:
        raise Unsupported(f"signature of {fn.name} is not plain")
    names = [p.arg for p in a.args]
    defaults = [None] * (len(names) - len(a.defaults)) + list(a.defaults)
    return list(zip(names, defaults))


def bind_call(call, sig, fname):
    """argument expressions by parameter name (Python's rules); a parameter left out maps to its default"""
    names = [n for n, _ in sig]
    if len(call.args) > len(names):
        raise Unsupported(f"too many positional arguments for {fname}")
    bound = {}
    for n, e in zip(names, call.args):
        if isinstance(e, ast.Starred):
            raise Unsupported("starred argument")
        bound[n] = e
    for kw in call.keywords:
        if kw.arg is None or kw.arg not in names or kw.arg in bound:
            raise Unsupported(f"keyword `{kw.arg}` in the call of {fname}")
        bound[kw.arg] = kw.value
    out = {}
    for n, d in sig:
        if n in bound:
            out[n] = (bound[n], False)
        elif d is None:
            raise Unsupported(f"argument `{n}` of {fname} is missing")
        else:
            out[n] = (d, True)
    return out


def is_none(e):
    return isinstance(e, ast.Constant) and e.value is None


class Ctx:
    """the callee signatures found in the sources"""

    def __init__(self, trees):
        self.sigs = {}
        for f, names in (("sorted_array_utils.py", ("find_closest_element_indices_to_values", "integral",
                                                    "sum_over_indices")),
                         ("match.py", ("_integral_matching_stretch", "_interval_integral_matching_stretch",
                                       "integral_matching_reference_stretch"))):
            tree = trees.get(f)
            if tree is None:
                continue
            for n in names:
                fns = [s for s in tree.body if isinstance(s, ast.FunctionDef) and s.name == n]
                if len(fns) == 1:
                    try:
                        self.sigs[n] = signature(fns[0])
                    except Unsupported:
                        pass
        # names that match.py imports from sorted_array_utils
        self.imported = set()
        tree = trees.get("match.py")
        if tree is not None:
            for s in tree.body:
                if isinstance(s, ast.ImportFrom) and s.module == "sorted_array_utils" and s.level == 1:
                    for a in s.names:
                        if a.asname is None:
                            self.imported.add(a.name)

    def sig(self, name, expected):
        s = self.sigs.get(name)
        if s is None:
            raise Unsupported(f"{name} is not defined exactly once with a plain signature")
        if [n for n, _ in s] != list(expected):
            raise Unsupported(f"the signature of {name} changed: {[n for n, _ in s]}")
        return s


class FnT:
    """translator of one function body in one specialisation"""

    def __init__(self, ctx, fn, params, monadic, local_file, split=None):
        self.ctx, self.fn, self.monadic, self.local_file = ctx, fn, monadic, local_file
        self.env = {}
        self.params = params
        self.pristine = {}
        for name, kind in params.items():
            self.env[name] = Val(kind, "pw" if kind == EXP else (None if kind in (NONE, DEAD) else ident(name)))
            self.pristine[name] = True
        self.lines = []
        self.ind = 1
        self.ntmp = 0
        self.done = False
        self.split = split

    # ---- emission -----------------------------------------------------------------------
    def emit(self, s):
        self.lines.append("  " * self.ind + s)

    def bind(self, code, kind):
        if not self.monadic:
            raise Unsupported("a call that can raise inside a pure function")
        self.ntmp += 1
        t = f"tmp_{self.ntmp}"
        self.emit(f"let {t} ← {code}")
        return Val(kind, t)

    # ---- static tests ---------------------------------------------------------------------
    def static(self, e):
        """True / False when the specialisation decides the test, else None"""
        if isinstance(e, ast.Compare) and len(e.ops) == 1 and isinstance(e.ops[0], (ast.Is, ast.IsNot)) \
                and is_none(e.comparators[0]):
            v = self.expr(e.left, allow_none=True, pure=True)
            r = v.kind == NONE
            return r if isinstance(e.ops[0], ast.Is) else not r
        if isinstance(e, ast.UnaryOp) and isinstance(e.op, ast.Not):
            r = self.static(e.operand)
            return None if r is None else not r
        if isinstance(e, ast.BoolOp):
            rs = [self.static(v) for v in e.values]
            if any(r is None for r in rs):
                if all(r is None for r in rs):
                    return None
                raise Unsupported("a test mixing `is None` with a run-time condition")
            return all(rs) if isinstance(e.op, ast.And) else any(rs)
        return None

    def test(self, e):
        """run-time test -> Lean proposition"""
        if isinstance(e, ast.Compare) and len(e.ops) == 1:
            a, b = self.expr(e.left, pure=True), self.expr(e.comparators[0], pure=True)
            ops = {ast.Lt: "<", ast.LtE: "≤", ast.Gt: ">", ast.GtE: "≥", ast.Eq: "=", ast.NotEq: "≠"}
            op = ops.get(type(e.ops[0]))
            if op is None:
                raise Unsupported(f"comparison {type(e.ops[0]).__name__}")
            if a.kind == N and b.kind == N:
                return f"({a.code} {op} {b.code})"
            if a.kind == S and b.kind == S:
                return f"({a.code} {op} {b.code})"
            raise Unsupported(f"comparison of {a.kind} with {b.kind}")
        if isinstance(e, ast.UnaryOp) and isinstance(e.op, ast.Not):
            return f"(¬ {self.test(e.operand)})"
        if isinstance(e, ast.BoolOp):
            j = " ∧ " if isinstance(e.op, ast.And) else " ∨ "
            return "(" + j.join(self.test(v) for v in e.values) + ")"
        raise Unsupported(f"test {type(e).__name__} (truthiness of an object is not modelled)")

    def pure_test(self, e):
        """a test that cannot raise and has no effect (guards a warning): only lengths, numbers, comparisons"""
        for n in ast.walk(e):
            if isinstance(n, ast.Call):
                if not (isinstance(n.func, ast.Name) and n.func.id == "len" and len(n.args) == 1
                        and isinstance(n.args[0], ast.Name) and not n.keywords):
                    raise Unsupported("the guard of a warning calls something")
                v = self.env.get(n.args[0].id)
                if v is None or v.kind not in (LK, LN, LI, V):
                    raise Unsupported("the guard of a warning takes the length of something that is not an array")
            elif isinstance(n, ast.Name):
                if n.id != "len" and n.id not in self.env:
                    raise Unsupported(f"unknown name `{n.id}`")
            elif isinstance(n, ast.BinOp) and isinstance(n.op, (ast.Div, ast.FloorDiv, ast.Mod)):
                if not (isinstance(n.right, ast.Constant) and isinstance(n.right.value, (int, float))
                        and not isinstance(n.right.value, bool) and n.right.value != 0):
                    raise Unsupported("the guard of a warning divides by something that is not a literal")
            elif not isinstance(n, (ast.Compare, ast.BoolOp, ast.UnaryOp, ast.BinOp, ast.Constant, ast.Load,
                                    ast.cmpop, ast.boolop, ast.operator, ast.unaryop)):
                raise Unsupported(f"the guard of a warning contains {type(n).__name__}")

    # ---- expressions --------------------------------------------------------------------
    def as_vec(self, v):
        if v.kind == V:
            return v.code
        if v.kind == LK:
            return f"(Vec.ofList {v.code})"
        raise Unsupported(f"an array of reals is expected, not {v.kind}")

    def as_lk(self, v):
        if v.kind == LK:
            return v.code
        if v.kind == V:
            return f"(Vec.toList {v.code})"
        raise Unsupported(f"an array of reals is expected, not {v.kind}")

    def bound(self, e):
        if e is None:
            return "none"
        v = self.expr(e, pure=True)
        if v.kind != N and not (v.kind == "I" and v.literal is not None):
            raise Unsupported("a slice bound that is not a count or a literal")
        if v.literal is not None:
            return f"(some ({v.literal}))" if v.literal < 0 else f"(some {v.literal})"
        return f"(some (({v.code} : Nat) : Int))"

    def exponent(self, bound_alpha, fname):
        e, is_default = bound_alpha
        if is_default:
            if isinstance(e, ast.Constant) and isinstance(e.value, (int, float)) and not isinstance(e.value, bool) \
                    and e.value == 1:
                return "(fun t => t)"      # `** 1.0`
            raise Unsupported(f"the default exponent of {fname} is not 1")
        v = self.expr(e, pure=True)
        if v.kind != EXP:
            raise Unsupported(f"the exponent handed to {fname} is not the parameter `alpha`")
        return v.code

    def no_smoothing(self, bound_s, fname):
        e, _ = bound_s
        if not is_none(e):
            v = self.expr(e, allow_none=True, pure=True)
            if v.kind != NONE:
                raise Unsupported(f"{fname} is called with a smoothing condition (external spline: out of scope)")

    def string_arg(self, b):
        e, _ = b
        v = self.expr(e, pure=True)
        if v.kind != STR:
            raise Unsupported("a method / strategy that is not a string")
        return v.code

    def callee(self, name):
        """is `name` the module-level function of that name (not shadowed by a local)?"""
        if name in self.env:
            return False
        if self.local_file == "match.py" and name in ("find_closest_element_indices_to_values", "integral",
                                                        "sum_over_indices"):
            if name not in self.ctx.imported:
                raise Unsupported(f"`{name}` is not imported from .sorted_array_utils")
        return True

    def expr(self, e, allow_none=False, pure=False):
        v = self._expr(e, pure)
        if v.kind == DEAD:
            raise Unsupported("a parameter that is irrelevant in this specialisation is used")
        if v.kind == NONE and not allow_none:
            raise Unsupported("None used as a value")
        return v

    def _expr(self, e, pure):
        if isinstance(e, ast.Name):
            v = self.env.get(e.id)
            if v is None:
                raise Unsupported(f"unknown name `{e.id}`")
            if v.kind == "PREFIX":
                raise Unsupported(f"`{e.id}` of the fixed-point part is used after it (only the three results are)")
            if self.split == "tail" and e.id in self.pristine and not self.pristine[e.id]:
                raise Unsupported(f"parameter `{e.id}` is changed in the fixed-point part and used after it")
            return v
        if isinstance(e, ast.Constant):
            c = e.value
            if c is None:
                return Val(NONE)
            if isinstance(c, str):
                return Val(STR, strlit(c))
            if isinstance(c, bool):
                raise Unsupported("bool literal")
            if isinstance(c, int):
                return Val(N if c >= 0 else "I", str(c), literal=c)
            if isinstance(c, float):
                return Val(S, lit(c))
            raise Unsupported(f"literal {c!r}")
        if isinstance(e, ast.UnaryOp) and isinstance(e.op, ast.USub) and isinstance(e.operand, ast.Constant) \
                and isinstance(e.operand.value, int) and not isinstance(e.operand.value, bool):
            return Val("I", str(-e.operand.value), literal=-e.operand.value)
        if isinstance(e, ast.IfExp):
            r = self.static(e.test)
            if r is None:
                raise Unsupported("a conditional expression on a run-time test")
            return self._expr(e.body if r else e.orelse, pure)
        if isinstance(e, ast.BinOp):
            a, b = self.expr(e.left, pure=pure), self.expr(e.right, pure=pure)
            if a.kind == N and b.kind == N and isinstance(e.op, (ast.Add, ast.Mult)):
                return Val(N, f"({a.code} {'+' if isinstance(e.op, ast.Add) else '*'} {b.code})")
            ops = {ast.Add: "+", ast.Sub: "-", ast.Mult: "*", ast.Div: "/"}
            if a.kind == S and b.kind == S and type(e.op) in ops:
                return Val(S, f"({a.code} {ops[type(e.op)]} {b.code})")
            raise Unsupported(f"operator {type(e.op).__name__} on {a.kind}, {b.kind}")
        if isinstance(e, ast.Subscript):
            return self.subscript(e, pure)
        if isinstance(e, ast.ListComp):
            return self.listcomp(e)
        if isinstance(e, ast.Call):
            return self.call(e, pure)
        raise Unsupported(f"expression {type(e).__name__}")

    def subscript(self, e, pure):
        # np.where(np.isin(a, b))[0]
        if isinstance(e.value, ast.Call) and is_np(e.value.func, ("where", "nonzero")):
            c = e.value
            if not (isinstance(e.slice, ast.Constant) and e.slice.value == 0 and not isinstance(e.slice.value, bool)):
                raise Unsupported("np.where(..)[k] with k other than 0")
            if len(c.args) != 1 or c.keywords:
                raise Unsupported("np.where with more than the condition")
            return self.isin(c.args[0], pure)
        if not isinstance(e.slice, ast.Slice):
            raise Unsupported("indexing with a single index")
        if e.slice.step is not None:
            raise Unsupported("slice with a step")
        v = self.expr(e.value, pure=pure)
        lo, hi = self.bound(e.slice.lower), self.bound(e.slice.upper)
        if v.kind == V:
            return Val(V, f"(Np.slice {v.code} {lo} {hi})")
        if v.kind in (LK, LN, LI):
            return Val(v.kind, f"(MV.lslice {v.code} {lo} {hi})")
        raise Unsupported(f"slice of {v.kind}")

    def isin(self, c, pure):
        if not (isinstance(c, ast.Call) and is_np(c.func, ("isin", "in1d")) and len(c.args) == 2 and not c.keywords):
            raise Unsupported("the condition of np.where is not np.isin(a, b)")
        a, b = self.expr(c.args[0], pure=pure), self.expr(c.args[1], pure=pure)
        if a.kind != LK or b.kind != LK:
            raise Unsupported(f"np.isin of {a.kind}, {b.kind}")
        return Val(LN, f"(whereIsin {a.code} {b.code})")

    def iter_lists(self, it):
        """`zip(l1, .., lk)` -> ([kinds of the elements], Lean list of tuples)"""
        if not (isinstance(it, ast.Call) and isinstance(it.func, ast.Name) and it.func.id == "zip"
                and "zip" not in self.env and not it.keywords and len(it.args) in (2, 3)):
            raise Unsupported("iteration over something that is not zip(..) of two or three arrays")
        vals = [self.expr(a, pure=True) for a in it.args]
        for v in vals:
            if v.kind not in (LK, LN):
                raise Unsupported(f"zip over {v.kind}")
        code = (f"(List.zip {vals[0].code} {vals[1].code})" if len(vals) == 2
                else f"(MV.zip3 {vals[0].code} {vals[1].code} {vals[2].code})")
        return [ELEM[v.kind] for v in vals], code

    def targets(self, t, kinds):
        if not (isinstance(t, ast.Tuple) and len(t.elts) == len(kinds)
                and all(isinstance(x, ast.Name) for x in t.elts)):
            raise Unsupported("loop targets do not match the zip")
        names = [x.id for x in t.elts]
        if len(set(names)) != len(names):
            raise Unsupported("repeated loop target")
        return names

    def listcomp(self, e):
        if len(e.generators) != 1 or e.generators[0].ifs or e.generators[0].is_async:
            raise Unsupported("comprehension with a filter or several generators")
        g = e.generators[0]
        kinds, code = self.iter_lists(g.iter)
        names = self.targets(g.target, kinds)
        saved = dict(self.env)
        for n, k in zip(names, kinds):
            self.env[n] = Val(k, ident(n))
        try:
            elt = self.expr(e.elt, pure=True)
        finally:
            self.env = saved
        if elt.kind not in LIST_OF:
            raise Unsupported(f"comprehension of {elt.kind}")
        pat = ", ".join(ident(n) for n in names)
        return Val(LIST_OF[elt.kind], f"(List.map (fun t => match t with\n    | ({pat}) => {elt.code}) {code})")

    def call(self, e, pure):
        f = e.func
        # numpy functions
        if is_np(f, ("asarray", "array", "asanyarray")):
            if len(e.args) != 1 or any(k.arg != "dtype" for k in e.keywords):
                raise Unsupported("np.asarray with unusual arguments")
            v = self.expr(e.args[0], pure=pure)
            if v.kind not in (V, LK, LN, LI):
                raise Unsupported(f"np.asarray of {v.kind}")
            return v
        if is_np(f, ("unique",)):
            if len(e.args) != 1 or e.keywords:
                raise Unsupported("np.unique with options")
            v = self.expr(e.args[0], pure=pure)
            if v.kind == LK:
                return Val(LK, f"(uniqueK {v.code})")
            if v.kind == LN:
                return Val(LN, f"(uniqueN {v.code})")
            raise Unsupported(f"np.unique of {v.kind}")
        if is_np(f, ("flatnonzero",)) and len(e.args) == 1 and not e.keywords:
            return self.isin(e.args[0], pure)
        if is_np(f, ("arange",)):
            if len(e.args) != 1 or e.keywords:
                raise Unsupported("np.arange with more than a count")
            v = self.expr(e.args[0], pure=pure)
            if v.kind != N:
                raise Unsupported("np.arange of something that is not a count")
            return Val(LN, f"(List.range {v.code})")
        if is_np(f, ("sum",)) and len(e.args) == 1 and not e.keywords:
            v = self.expr(e.args[0], pure=pure)
            if v.kind != V:
                raise Unsupported(f"sum of {v.kind}")
            return Val(S, f"(Vec.sum {v.code})")
        take = None
        if is_np(f, ("take",)) and len(e.args) == 2 and not e.keywords:
            take = e.args
        elif isinstance(f, ast.Attribute) and f.attr == "take" and len(e.args) == 1 and not e.keywords:
            take = (f.value, e.args[0])
        if take is not None:
            if pure:
                raise Unsupported("take (can raise) in a place that must be pure")
            a, i = self.expr(take[0]), self.expr(take[1])
            if a.kind != LK:
                raise Unsupported(f"take from {a.kind}")
            if i.kind == LI:
                return self.bind(f"takeK {a.code} {i.code}", LK)
            if i.kind == LN:
                return self.bind(f"takeK {a.code} (List.map Int.ofNat {i.code})", LK)
            raise Unsupported(f"take with {i.kind}")
        if isinstance(f, ast.Attribute) and f.attr == "sum" and not e.args and not e.keywords:
            v = self.expr(f.value, pure=pure)
            if v.kind != V:
                raise Unsupported(f"sum of {v.kind}")
            return Val(S, f"(Vec.sum {v.code})")
        if isinstance(f, ast.Name) and f.id == "len" and "len" not in self.env and len(e.args) == 1 \
                and not e.keywords:
            v = self.expr(e.args[0], pure=pure)
            if v.kind in (LK, LN, LI):
                return Val(N, f"{v.code}.length")
            if v.kind == V:
                return Val(N, f"{v.code}.len")
            raise Unsupported(f"len of {v.kind}")
        if isinstance(f, ast.Name) and self.callee(f.id):
            if pure and f.id != "sum_over_indices":
                raise Unsupported(f"{f.id} (can raise) in a place that must be pure")
            if f.id == "find_closest_element_indices_to_values":
                b = bind_call(e, self.ctx.sig(f.id, ("x", "lookup", "strategy", "fill_not_valid")), f.id)
                a, q = self.expr(b["x"][0]), self.expr(b["lookup"][0])
                if a.kind != LK or q.kind != LK:
                    raise Unsupported(f"search in {a.kind} for {q.kind}")
                fill = b["fill_not_valid"][0]
                if not (isinstance(fill, ast.Constant) and isinstance(fill.value, bool)):
                    raise Unsupported("fill_not_valid is not a literal flag")
                return self.bind(f"Search.find {self.string_arg(b['strategy'])} {'true' if fill.value else 'false'}"
                                 f" {a.code} {q.code}", LI)
            if f.id == "integral":
                b = bind_call(e, self.ctx.sig(f.id, ("x", "y", "method")), f.id)
                a, y = self.as_vec(self.expr(b["x"][0])), self.as_vec(self.expr(b["y"][0]))
                return self.bind(f"MV.integral {self.string_arg(b['method'])} {a} {y}", V)
            if f.id == "sum_over_indices":
                b = bind_call(e, self.ctx.sig(f.id, ("a", "indices")), f.id)
                a, i = self.as_vec(self.expr(b["a"][0], pure=pure)), self.expr(b["indices"][0], pure=pure)
                if i.kind != LN:
                    raise Unsupported(f"sum_over_indices with {i.kind} as indices")
                return Val(LK, f"(Gen.sum_over_indices {a} {i.code})")
            if f.id == "_integral_matching_stretch":
                b = bind_call(e, self.ctx.sig(f.id, ("x", "y", "integral_value", "integral_method", "dx", "alpha",
                                                     "s")), f.id)
                xw, yw = self.as_vec(self.expr(b["x"][0])), self.as_vec(self.expr(b["y"][0]))
                iv, dflt = b["integral_value"]
                if dflt:
                    if not (isinstance(iv, ast.Constant) and isinstance(iv.value, (int, float))
                            and not isinstance(iv.value, bool)):
                        raise Unsupported("default integral_value is not a number")
                    ivc = lit(iv.value)
                else:
                    w = self.expr(iv)
                    if w.kind != S:
                        raise Unsupported(f"integral_value is {w.kind}")
                    ivc = w.code
                if not b["dx"][1]:
                    self.expr(b["dx"][0], pure=True)      # ignored by the kernel when x is given; must be harmless
                self.no_smoothing(b["s"], f.id)
                return self.bind(f"MV.kernel {self.string_arg(b['integral_method'])} {self.exponent(b['alpha'], f.id)}"
                                 f" {xw} {yw} {ivc}", V)
            if f.id == "_interval_integral_matching_stretch":
                b = bind_call(e, self.ctx.sig(f.id, ("x", "y", "dx", "integral_values", "fixed_points_indices_in_x",
                                                     "integral_method", "alpha", "s")), f.id)
                x, y = self.as_vec(self.expr(b["x"][0])), self.as_vec(self.expr(b["y"][0]))
                for p in ("integral_values", "fixed_points_indices_in_x"):
                    if b[p][1]:
                        raise Unsupported(f"`{p}` is not handed to {f.id}")
                iv = self.as_lk(self.expr(b["integral_values"][0]))
                fx = self.expr(b["fixed_points_indices_in_x"][0])
                if fx.kind != LN:
                    raise Unsupported(f"fixed_points_indices_in_x is {fx.kind}")
                if not b["dx"][1]:
                    self.expr(b["dx"][0], pure=True)
                self.no_smoothing(b["s"], f.id)
                return self.bind(f"Gen.interval_stretch {self.exponent(b['alpha'], f.id)} {x} {y} {iv} {fx.code}"
                                 f" {self.string_arg(b['integral_method'])}", V)
        raise Unsupported(f"call of `{ast.unparse(f)}`")

    # ---- statements -----------------------------------------------------------------------
    def assign_name(self, name, v):
        if name in self.env and self.env[name].kind == EXP:
            raise Unsupported("the exponent is reassigned")
        if v.kind == NONE:
            self.env[name] = Val(NONE)
            if name in self.pristine:
                self.pristine[name] = False
            return
        if v.kind in (EXP, "I"):
            raise Unsupported(f"assignment of {v.kind}")
        i = ident(name)
        self.emit(f"let {i} {':=' } {v.code}")
        if name in self.pristine and v.code != i:
            self.pristine[name] = False
        self.env[name] = Val(v.kind, i)

    def is_warn(self, s):
        return (isinstance(s, ast.Expr) and isinstance(s.value, ast.Call)
                and isinstance(s.value.func, ast.Attribute) and s.value.func.attr == "warn"
                and isinstance(s.value.func.value, ast.Name) and s.value.func.value.id == "warnings"
                and all(isinstance(a, ast.Constant) for a in s.value.args)
                and all(isinstance(k.value, (ast.Constant, ast.Name)) for k in s.value.keywords))

    def raise_code(self, s):
        exc = s.exc
        if isinstance(exc, ast.Call):
            if not all(isinstance(a, ast.Constant) for a in exc.args) or exc.keywords:
                raise Unsupported("exception with computed arguments")
            exc = exc.func
        if not (isinstance(exc, ast.Name) and exc.id in ERRORS and exc.id not in self.env) or s.cause is not None:
            raise Unsupported("raise of something that is not a known exception")
        return f"throw Err.{ERRORS[exc.id]}"

    def block(self, stmts, in_loop=False):
        for k, s in enumerate(stmts):
            if self.done:
                return
            self.stmt(s, in_loop)

    def stmt(self, s, in_loop):
        if isinstance(s, ast.Pass) or self.is_warn(s):
            return
        if isinstance(s, ast.Expr) and isinstance(s.value, ast.Constant) and isinstance(s.value.value, str):
            return
        if isinstance(s, ast.Assign):
            if len(s.targets) != 1:
                raise Unsupported("chained assignment")
            t = s.targets[0]
            if isinstance(t, ast.Name):
                self.assign_name(t.id, self.expr(s.value, allow_none=True))
                return
            if isinstance(t, ast.Tuple) and isinstance(s.value, ast.Tuple) and len(t.elts) == len(s.value.elts) \
                    and all(isinstance(x, ast.Name) for x in t.elts):
                vals = [self.expr(v) for v in s.value.elts]
                names = [x.id for x in t.elts]
                if len(set(names)) != len(names):
                    raise Unsupported("repeated target")
                for n, v in zip(names, vals):
                    if v.kind in (EXP, "I") or (n in self.env and self.env[n].kind == EXP):
                        raise Unsupported("assignment of the exponent / an integer")
                ids = [ident(n) for n in names]
                self.emit(f"let ({', '.join(ids)}) := ({', '.join(v.code for v in vals)})")
                for n, i, v in zip(names, ids, vals):
                    if n in self.pristine and v.code != i:
                        self.pristine[n] = False
                    self.env[n] = Val(v.kind, i)
                return
            if isinstance(t, ast.Subscript) and isinstance(t.value, ast.Name) and isinstance(t.slice, ast.Slice) \
                    and t.slice.step is None:
                a = self.expr(t.value)
                if a.kind != V:
                    raise Unsupported(f"slice assignment into {a.kind}")
                v = self.as_vec(self.expr(s.value))
                lo, hi = self.bound(t.slice.lower), self.bound(t.slice.upper)
                if not self.monadic:
                    raise Unsupported("slice assignment in a pure function")
                i = ident(t.value.id)
                self.emit(f"let {i} ← MV.sliceSet {a.code} {lo} {hi} {v}")
                if t.value.id in self.pristine:
                    self.pristine[t.value.id] = False
                self.env[t.value.id] = Val(V, i)
                return
            raise Unsupported("assignment target")
        if isinstance(s, ast.If):
            r = self.static(s.test)
            if r is not None:
                self.block(s.body if r else s.orelse, in_loop)
                return
            if not s.orelse and len(s.body) == 1 and isinstance(s.body[0], ast.Raise):
                if not self.monadic:
                    raise Unsupported("raise in a pure function")
                self.emit(f"if {self.test(s.test)} then {self.raise_code(s.body[0])}")
                return
            if not s.orelse and s.body and all(self.is_warn(b) for b in s.body):
                self.pure_test(s.test)
                return
            raise Unsupported("an `if` on a run-time test that does more than raise or warn")
        if isinstance(s, ast.Raise):
            if not self.monadic or in_loop:
                raise Unsupported("unconditional raise here")
            self.emit(self.raise_code(s))
            self.done = True
            return
        if isinstance(s, ast.For):
            if in_loop or s.orelse or not self.monadic:
                raise Unsupported("nested loop / for-else")
            self.for_loop(s)
            return
        if isinstance(s, ast.Return):
            if in_loop:
                raise Unsupported("return inside the loop")
            if s.value is None:
                raise Unsupported("return without a value")
            self.ret = self.expr(s.value)
            self.done = True
            return
        raise Unsupported(f"statement {type(s).__name__}")

    def for_loop(self, s):
        kinds, code = self.iter_lists(s.iter)
        names = self.targets(s.target, kinds)
        assigned = []
        for n in ast.walk(ast.Module(body=s.body, type_ignores=[])):
            if isinstance(n, (ast.Return, ast.Break, ast.Continue, ast.For, ast.While, ast.AugAssign)):
                raise Unsupported(f"{type(n).__name__} inside the loop")
            if isinstance(n, ast.Assign):
                for t in n.targets:
                    for m in ast.walk(t):
                        if isinstance(m, ast.Name) and isinstance(m.ctx, ast.Store) and m.id not in assigned:
                            assigned.append(m.id)
                    if isinstance(t, ast.Subscript) and isinstance(t.value, ast.Name) and t.value.id not in assigned:
                        assigned.append(t.value.id)
        carried = [n for n in assigned if n in self.env and n not in names]
        if len(carried) != 1 or self.env[carried[0]].kind != V:
            raise Unsupported(f"the loop carries {carried or 'nothing'} (exactly one array is supported)")
        c = carried[0]
        ci = ident(c)
        saved = dict(self.env)
        pat = ", ".join(ident(n) for n in names)
        self.emit(f"let {ci} ← List.foldlM (fun {ci} t => match t with")
        self.emit(f"  | ({pat}) => do")
        for n, k in zip(names, kinds):
            self.env[n] = Val(k, ident(n))
        self.env[c] = Val(V, ci)
        self.ind += 2
        self.block(s.body, in_loop=True)
        self.emit(f"pure {ci}) {saved[c].code} {code}")
        self.ind -= 2
        if self.env[c].kind != V:
            raise Unsupported("the carried array changes its kind")
        for n in list(self.env):
            if n not in saved:
                del self.env[n]         # loop targets and body locals are not visible afterwards
        for n in saved:
            if n != c:
                self.env[n] = saved[n]
        self.env[c] = Val(V, ci)
        if c in self.pristine:
            self.pristine[c] = False


# ---------------------------------------------------------------------------------------------
# the definitions
# ---------------------------------------------------------------------------------------------

TOP = "integral_matching_reference_stretch"
TOP_PARAMS = ("x", "y", "x_ref", "y_ref", "fixed_points_in_x", "fixed_points_indices_in_x",
              "fixed_points_finding_strategy", "target_function_integral_method",
              "reference_function_integral_method", "alpha", "s")
LOOP = "_interval_integral_matching_stretch"
LOOP_PARAMS = ("x", "y", "dx", "integral_values", "fixed_points_indices_in_x", "integral_method", "alpha", "s")
WHICH = {"searched": (False, False), "positions": (True, False), "indices": (False, True), "both": (True, True)}
RECORD = (("inX", "fixed_points_in_x", LK), ("idxX", "fixed_points_indices_in_x", LN),
          ("idxRef", "fixed_points_in_x_ref_indices", LN))
TAIL_CALLEES = ("integral", "sum_over_indices", LOOP)
STRS = "(fixed_points_finding_strategy target_function_integral_method reference_function_integral_method : String)"
STR_ARGS = "fixed_points_finding_strategy target_function_integral_method reference_function_integral_method"


def top_binders(which):
    fpx, fpi = WHICH[which]
    b = "(x y x_ref y_ref : List K)"
    a = "x y x_ref y_ref"
    if fpx:
        b += " (fixed_points_in_x : List K)"
        a += " fixed_points_in_x"
    if fpi:
        b += " (fixed_points_indices_in_x : List Nat)"
        a += " fixed_points_indices_in_x"
    return f"{b} {STRS}", f"{a} {STR_ARGS}"


def model_opts(which):
    fpx, fpi = WHICH[which]
    return ("(some fixed_points_in_x)" if fpx else "none"), ("(some fixed_points_indices_in_x)" if fpi else "none")


def find_fn(trees, file, name):
    tree = trees.get(file)
    if tree is None:
        raise Unsupported(f"{file} cannot be read / parsed")
    fns = [s for s in tree.body if isinstance(s, ast.FunctionDef) and s.name == name]
    if len(fns) != 1:
        raise Unsupported(f"{name} is not defined exactly once in {file}")
    if fns[0].decorator_list:
        raise Unsupported(f"{name} is decorated")
    return fns[0]


def check_params(fn, expected, none_defaults=()):
    sig = signature(fn)
    if [n for n, _ in sig] != list(expected):
        raise Unsupported(f"the signature of {fn.name} changed: {[n for n, _ in sig]}")
    for n, d in sig:
        if n in none_defaults and not (d is not None and is_none(d)):
            raise Unsupported(f"the default of `{n}` is not None")
    return sig


def gen_sum_over_indices(ctx, trees):
    fn = find_fn(trees, "sorted_array_utils.py", "sum_over_indices")
    check_params(fn, ("a", "indices"))
    t = FnT(ctx, fn, {"a": V, "indices": LN}, monadic=False, local_file="sorted_array_utils.py")
    t.block(fn.body)
    if not t.done or t.ret.kind != LK:
        raise Unsupported("sum_over_indices does not return an array of reals")
    return "\n".join(["def Gen.sum_over_indices (a : Vec K) (indices : List Nat) : List K :="] + t.lines
                     + [f"  {t.ret.code}"])


LOOP_BINDERS = ("(pw : K → K) (x y : Vec K) (integral_values : List K) (fixed_points_indices_in_x : List Nat)"
                " (integral_method : String)")


def gen_interval(ctx, trees):
    fn = find_fn(trees, "match.py", LOOP)
    check_params(fn, LOOP_PARAMS, none_defaults=("integral_values", "fixed_points_indices_in_x", "s"))
    t = FnT(ctx, fn, {"x": V, "y": V, "dx": DEAD, "integral_values": LK, "fixed_points_indices_in_x": LN,
                      "integral_method": STR, "alpha": EXP, "s": NONE}, monadic=True, local_file="match.py")
    t.block(fn.body)
    if not t.done:
        raise Unsupported("no return")
    head = f"def Gen.interval_stretch {LOOP_BINDERS} : Except Err (Vec K) := do"
    if hasattr(t, "ret"):
        t.emit(f"pure {t.as_vec(t.ret)}")
    return "\n".join([head] + t.lines)


def is_tail_start(s):
    for n in ast.walk(s):
        if isinstance(n, ast.Call) and isinstance(n.func, ast.Name) and n.func.id in TAIL_CALLEES:
            return True
    return False


def gen_top(ctx, trees, which):
    fn = find_fn(trees, "match.py", TOP)
    check_params(fn, TOP_PARAMS, none_defaults=("fixed_points_in_x", "fixed_points_indices_in_x", "s"))
    fpx, fpi = WHICH[which]
    params = {"x": LK, "y": LK, "x_ref": LK, "y_ref": LK, "fixed_points_in_x": LK if fpx else NONE,
              "fixed_points_indices_in_x": LN if fpi else NONE, "fixed_points_finding_strategy": STR,
              "target_function_integral_method": STR, "reference_function_integral_method": STR, "alpha": EXP,
              "s": NONE}
    k = next((i for i, s in enumerate(fn.body) if is_tail_start(s)), None)
    if k is None:
        raise Unsupported("no call of integral / sum_over_indices / the interval loop at the top level")
    binders, args = top_binders(which)
    # the fixed-point part
    t = FnT(ctx, fn, params, monadic=True, local_file="match.py", split="head")
    t.block(fn.body[:k])
    if t.done:
        if hasattr(t, "ret"):
            raise Unsupported("the function returns before the reference integrals")
    else:
        fields = []
        for field, name, kind in RECORD:
            v = t.env.get(name)
            if v is None or v.kind != kind:
                raise Unsupported(f"`{name}` is not an array of the expected kind where the reference integrals start")
            fields.append(f"{field} := {v.code}")
        t.emit("pure { " + ", ".join(fields) + " }")
    head = "\n".join([f"def Gen.fixed_points_{which} {binders} : Except Err (FixedPoints K) := do"] + t.lines)
    # everything
    u = FnT(ctx, fn, params, monadic=True, local_file="match.py", split="tail")
    u.pristine = dict(t.pristine)
    for name, v in t.env.items():
        if name not in params:
            u.env[name] = Val("PREFIX")
    u.emit(f"let fp ← Gen.fixed_points_{which} {args}")
    for field, name, kind in RECORD:
        i = ident(name)
        u.emit(f"let {i} := fp.{field}")
        u.env[name] = Val(kind, i)
        u.pristine[name] = True
    u.block(fn.body[k:])
    if not u.done:
        raise Unsupported("no return")
    if hasattr(u, "ret"):
        u.emit(f"pure {u.as_lk(u.ret)}")
    tail = "\n".join([f"def Gen.match_{which} (pw : K → K) {binders} : Except Err (List K) := do"] + u.lines)
    return head, tail


def gen_defaults(ctx, trees):
    fn = find_fn(trees, "match.py", TOP)
    sig = dict(check_params(fn, TOP_PARAMS))
    out = []
    for n in ("fixed_points_finding_strategy", "target_function_integral_method",
              "reference_function_integral_method"):
        d = sig[n]
        if not (isinstance(d, ast.Constant) and isinstance(d.value, str)):
            raise Unsupported(f"the default of `{n}` is not a string")
        out.append(f'("{n}", {strlit(d.value)})')
    d = sig["alpha"]
    if not (isinstance(d, ast.Constant) and isinstance(d.value, (int, float)) and not isinstance(d.value, bool)):
        raise Unsupported("the default of `alpha` is not a number")
    f = Fraction(repr(d.value)) if isinstance(d.value, float) else Fraction(d.value)
    out.append(f'("alpha", "{f.numerator}/{f.denominator}")')
    return "def Gen.match_defaults : List (String × String) :=\n  [" + ", ".join(out) + "]"


def alias_top(which):
    binders, args = top_binders(which)
    fpx, fpi = model_opts(which)
    head = (f"def Gen.fixed_points_{which} {binders} : Except Err (FixedPoints K) :=\n"
            f"  fixedPoints x x_ref {fpx} {fpi} fixed_points_finding_strategy")
    tail = (f"def Gen.match_{which} (pw : K → K) {binders} : Except Err (List K) := do\n"
            f"  let fp ← Gen.fixed_points_{which} {args}\n"
            f"  let iv ← MV.integral reference_function_integral_method (Vec.ofList x_ref) (Vec.ofList y_ref)\n"
            f"  let z ← Gen.interval_stretch pw (Vec.ofList x) (Vec.ofList y) (Gen.sum_over_indices iv fp.idxRef)"
            f" fp.idxX target_function_integral_method\n"
            f"  pure (Vec.toList z)")
    return head, tail


ALIAS = {
    "sum_over_indices": "def Gen.sum_over_indices (a : Vec K) (indices : List Nat) : List K :=\n"
                        "  sumOverIndices a.get indices",
    "interval_stretch": f"def Gen.interval_stretch {LOOP_BINDERS} : Except Err (Vec K) :=\n"
                        "  MV.loopRef pw x y integral_values fixed_points_indices_in_x integral_method",
    "match_defaults": 'def Gen.match_defaults : List (String × String) :=\n'
                      '  [("fixed_points_finding_strategy", "closest"), ("target_function_integral_method", "trapezoid"),'
                      ' ("reference_function_integral_method", "rectangle"), ("alpha", "1/1")]',
}

HEADER = [
    "import TWV.Model.MatchVocab",
    "import TWV.Model.Search",
    "",
    "/-! GENERATED by harness/t11_match.py from src/traffic_weaver/{match,sorted_array_utils}.py — do not edit. -/",
    "",
    "set_option linter.unusedVariables false",
    "",
    "namespace TWV",
    "",
    "variable {K : Type} [Add K] [Sub K] [Mul K] [Div K] [Neg K] [Zero K] [One K] [NatCast K]",
    "  [LT K] [LE K] [DecidableLT K] [DecidableLE K] [DecidableEq K]",
    "",
]


def read_sources(src_dir=None):
    out = {}
    for f in FILES:
        text = None
        for d in ([Path(src_dir)] if src_dir is not None else []) + [SRC_DIR]:
            try:
                text = (d / f).read_text()
                break
            except OSError:
                continue
        out[f] = text
    return out


def generate(texts=None):
    """texts: {file name: source text}; files not given are read from /repo's working tree"""
    src = read_sources()
    src.update({k: v for k, v in (texts or {}).items() if v is not None})
    trees = {}
    for f, text in src.items():
        if text is None:
            continue
        try:
            trees[f] = ast.parse(text)
        except SyntaxError:
            pass
    ctx = Ctx(trees)
    out, notes = list(HEADER), []

    def attempt(name, thunk, alias):
        try:
            return thunk()
        except Unsupported as e:
            reason = str(e)
        except RecursionError:
            reason = "expression too deep"
        notes.append(f"UNSUPPORTED {name}: {reason}")
        a = alias()
        note = (f"/- T11 cannot translate `{name}` ({reason}); alias, the tie falls back to the"
                f" correspondence. -/\n")
        return note + a if isinstance(a, str) else (note + a[0], a[1])

    out += [attempt("sum_over_indices", lambda: gen_sum_over_indices(ctx, trees),
                    lambda: ALIAS["sum_over_indices"]), ""]
    out += [attempt("interval_stretch", lambda: gen_interval(ctx, trees), lambda: ALIAS["interval_stretch"]), ""]
    for which in WHICH:
        head, tail = attempt(f"match_{which}", lambda w=which: gen_top(ctx, trees, w), lambda w=which: alias_top(w))
        out += [head, "", tail, ""]
    out += [attempt("match_defaults", lambda: gen_defaults(ctx, trees), lambda: ALIAS["match_defaults"]), ""]
    out += ["end TWV", ""]
    return "\n".join(out), notes


N_DEFS = 2 + 2 * len(WHICH) + 1


def regenerate(texts=None, out=None):
    text, notes = generate(texts)
    out = Path(out) if out is not None else OUT
    out.parent.mkdir(parents=True, exist_ok=True)
    changed = (not out.exists()) or out.read_text() != text
    if changed:
        out.write_text(text)
    note = "; ".join(notes) if notes else f"all {N_DEFS} match-flow definitions translated"
    if notes:
        note += " (aliased: their ties hold trivially)"
    return f"{note} ({'rewritten' if changed else 'unchanged'})"


def main(argv):
    """python -m harness.t11_match [--src-dir DIR] [--stdout] [--out FILE]   (DIR holds match.py and / or
    sorted_array_utils.py; a file that is not there is read from /repo)"""
    src_dir, to_stdout, out = None, False, None
    it = iter(argv)
    for a in it:
        if a == "--src-dir":
            src_dir = next(it)
        elif a == "--out":
            out = next(it)
        elif a == "--stdout":
            to_stdout = True
        else:
            print(main.__doc__)
            return 2
    texts = read_sources(src_dir) if src_dir is not None else None
    if to_stdout:
        text, notes = generate(texts)
        print(text)
        for n in notes:
            print("--", n)
    else:
        print(regenerate(texts, out))
    return 0


if __name__ == "__main__":
    sys.exit(main(sys.argv[1:]))
